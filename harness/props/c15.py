"""C15 -- component/transform filters preserve rendering; anchors follow components."""
import traceback
from fractions import Fraction as Fr
from harness import gterm as G, geom
from harness.fonts import build_font, gen_component_font, jsonable

PID = "C15"
LEVEL_TEXT = ("Proof: Coq theorems for all glyph sets and non-singular transforms: decomposing through the pen chain equals the nested "
              "resolved outline (decompose_resolve, deco_resolve, place_compose: mirrored components reverse, reversal is an "
              "involution commuting with affine maps), _flattenComponent's translate+2x2 composition is plain matrix composition, "
              "and the transformations filter's inverse compensation M.T.M^-1 on an already transformed base equals M.T on the "
              "original base and keeps the component's orientation. Tied to /repo by evaluating the Coq renderer `resolve` on the glyph "
              "set before and after each real filter (Decompose, DecomposeTransformed, Flatten, Transformations; include subsets; "
              "both UFO libraries) and the Coq flatten model against FlattenComponentsFilter. Anchor propagation is transcribed "
              "(Geometry/Propagate.v, including the promotion of one mark to base in a mark made only of marks, the promoted component "
              "being an input computed by the check with fontTools' BoundsPen) and proved, for every glyph set and every promotion, never "
              "to override, to add only component images and to add nothing on a second run; every propagate run -- plain, mark-of-marks "
              "scenarios, the interpolatable form per master on families with a sparse master -- is compared with it and with an "
              "independent per-role statement. The matrix TransformationsFilter builds from its options is modelled step by "
              "step (Geometry/TransformMatrix.v) and proved equal, for all option values, to the closed form 'slant about the origin "
              "height, then scale about it, then offset' (C15_requested_matrix_closed_form / _on_a_point); the check's requested "
              "matrix is compared with that model exactly and with the filter's own matrix (exactly; within 1e-9 with slant), and "
              "the whole-set theorem transform_render covers every matrix.")
LEVEL_NOTE = ("Trusted: Coq kernel; hand model of the fontTools pens (correspondence-tested); exact rationals for dyadic inputs; "
              "TransformationsFilter is exercised with power-of-two scales and integer offsets inside Coq; slanted cases (tan() is "
              "irrational, the filter's float arithmetic is not exact) are judged against the same statement outside Coq with a "
              "1e-6 tolerance; the render-preservation statement is evaluated per case in Coq.")
TECHNIQUE = "Coq proofs of the decomposition/flatten/compensation algebra + Coq-evaluated render-preservation on real filter runs"
IMPORTS = "From U2F Require Import Base.Prelude Geometry.Model Geometry.Cff Geometry.Filters."
RULE = ("random component DAGs with anchors (depth <= 4, shared bases, all matrix classes) x filter in {DecomposeComponents, "
        "DecomposeTransformedComponents, FlattenComponents, Transformations(OffsetX/Y, ScaleX/Y in +-{25,50,100,200,400}%, Origin), "
        "PropagateAnchors} x include in {all, random subset, exclude subset} x both UFO libraries. Non-trivial = the filter "
        "reported at least one modified glyph; distinct by generated content."
        " The requested transformation matrix is computed from the options and the font's cap/x-height independently of the filter (half heights rounded half up; heights whose halves end in .5).")
ASSUMPTIONS = ["IEEE doubles are exact on the generated dyadic inputs"]

FN_PRES = ("fun c : (glyphset * glyphset * list str) => let '(gs, gs', names) := c in "
           "if render_preserved gs gs' names then 3 else 1")
FN_FLAT = ("fun c : (glyphset * glyphset * bool) => let '(gs, gs', all) := c in "
           "bits (negb all || model_flatten_eqb gs gs') (render_preserved gs gs' (keys gs) && (negb all || flattened_ok gs'))")
FN_TRANS = ("fun c : (affine * list str * list str * glyphset * glyphset * bool) => let '(m, incl, skip, gs, gs', all) := c in "
            "bits (negb all || model_transform_all_eqb m gs gs') (transformed_ok m incl skip gs gs')")


def ifilter_section(ctx):
    """the interpolatable forms of the three component filters, run on a plain list of compatible masters (no designspace, no
    instantiator) whose nested component offsets DIFFER from master to master: in every master every glyph renders after the
    filter what it rendered before (each master judged against itself, by the Coq renderer)"""
    from harness import dsgen
    from ufo2ft.util import _GlyphSet
    from ufo2ft.filters.decomposeComponents import DecomposeComponentsIFilter
    from ufo2ft.filters.decomposeTransformedComponents import DecomposeTransformedComponentsIFilter
    from ufo2ft.filters.flattenComponents import FlattenComponentsIFilter
    rng = ctx.subrng("ifilters")
    pres, flat = ([], []), ([], [])
    for i in range(ctx.budget(9, 45)):
        lib = ["ufoLib2", "defcon"][i % 2]
        which, cls = [("flatten", FlattenComponentsIFilter), ("decompose", DecomposeComponentsIFilter),
                      ("decompose_transformed", DecomposeTransformedComponentsIFilter)][i % 3]
        base = dsgen.base_master(rng, anchors=False, max_depth=3)
        plain = next(g["name"] for g in base["glyphs"] if g["contours"] and not g["components"])
        one = (Fr(1), Fr(0), Fr(0), Fr(1))
        inner = one if i % 2 == 0 else (Fr(1, 2), Fr(0), Fr(0), Fr(-1))
        base["glyphs"].append({"name": "nest.mid", "unicodes": [], "width": Fr(500), "contours": [], "anchors": [],
                               "components": [(plain, inner + (Fr(40), Fr(10)))]})
        base["glyphs"].append({"name": "nest.top", "unicodes": [], "width": Fr(500), "contours": [], "anchors": [],
                               "components": [("nest.mid", one + (Fr(-20), Fr(30))), (plain, one + (Fr(300), Fr(0)))]})
        base["glyphOrder"] = [g["name"] for g in base["glyphs"]]
        masters = [base] + [dsgen.perturb(rng, base, k) for k in range(1, 2 + (i // 3) % 2)]
        fonts = [build_font(m, lib) for m in masters]
        names = [g["name"] for g in base["glyphs"]]
        case = {"ifilter": cls.__name__, "lib": lib, "masters": len(masters), "font": jsonable(masters[0]), "last_master": jsonable(masters[-1])}
        try:
            gsets = [_GlyphSet.from_layer(f, copy=True) for f in fonts]
            before = [geom.snapshot_glyphset(g) for g in gsets]
            modified = cls()(fonts, gsets)
            after = [geom.snapshot_glyphset(g) for g in gsets]
        except Exception as e:
            ctx.spec_failure(case, "%s raised %s: %s\n%s" % (cls.__name__, type(e).__name__, e, traceback.format_exc()[-1200:]))
            continue
        ctx.count(); ctx.klass("interpolatable %s on %d masters" % (which, len(masters)))
        if modified:
            ctx.nontriv(("ifilter", i, ctx.scale))
        if "nest.top" not in modified and which != "decompose_transformed":
            ctx.spec_failure(case, "%s did not report the nested composite 'nest.top' (reported %r)" % (cls.__name__, sorted(modified)))
        for k, (b, a) in enumerate(zip(before, after)):
            g0, g1 = geom.g_glyphset(b), geom.g_glyphset(a)
            if which == "flatten" and not any(g["contours"] and g["components"] for g in b):
                # (how deep the nesting may stay is judged where no glyph mixes contours and components: the interpolatable
                # form leaves mixed glyphs alone, and the property is about rendering, not depth)
                flat[0].append(G.tup(g0, g1, G.b(True))); flat[1].append(dict(case, master=k))
            else:
                pres[0].append(G.tup(g0, g1, G.lst([G.s(n) for n in names], "str"))); pres[1].append(dict(case, master=k))
    for (cases, meta), fn, tag in ((pres, FN_PRES, "IPres"), (flat, FN_FLAT, "IFlat")):
        vals = ctx.coq_eval(IMPORTS, fn, cases, chunk=6, tag=tag)
        for v, case in zip(vals, meta):
            if v is not None and not v & 2:
                ctx.spec_failure(case, "master %d: the interpolatable filter changed what a glyph renders (Coq render_preserved false), "
                                       "or left nesting deeper than one level" % case["master"])


def promotions(font, after):
    """for every composite made only of mark components whose name looks like a mark ligature: the index, among its mark
    components, of the one whose outline reaches closest to the origin -- the input `promo` of Geometry/Propagate.v.
    Computed with fontTools' BoundsPen through a TransformPen on the source glyphs (outlines are not touched by the filter);
    nothing of ufo2ft"""
    from fontTools.pens.boundsPen import BoundsPen
    from fontTools.pens.transformPen import TransformPen
    by = {g["name"]: g for g in after}
    is_mark = lambda b: any(a[0].startswith("_") for a in by[b]["anchors"])
    out = []
    for g in after:
        comps = [(b, t) for b, t in g["components"] if b in by]
        if not comps or not all(is_mark(b) for b, _ in comps) or g["name"].startswith("_") or "_" not in g["name"]:
            continue
        dist = []
        for b, t in comps:
            bp = BoundsPen(font)
            try:
                font[b].draw(TransformPen(bp, tuple(float(v) for v in t)))
            except Exception:
                bp = None
            if bp is None or bp.bounds is None:
                dist = None
                break
            dist.append(bp.bounds[0] ** 2 + bp.bounds[1] ** 2)
        if dist:
            out.append((g["name"], dist.index(min(dist))))
    return out


def g_promo(pr):
    return G.lst([G.tup(G.s(n), "%d%%nat" % k) for n, k in pr], "(str * nat)")


def mark_of_marks_section(ctx):
    """anchor propagation into a mark LIGATURE made only of marks: the component whose OUTLINE reaches closest to the origin
    (lower-left corner of its true bounds, off-curve handles not counted) acts as the base; the composite gets that
    component's anchors, and the anchor by which the other mark attaches follows that other mark.  One mark is a polygon, the
    other has a curved bottom whose handles stick out below the curve (true bottom 507.5, handles at 490); the polygon's
    bottom is below both, between them, or above both; component order and an offset are cycled.  Oracle: fontTools'
    BoundsPen through a TransformPen, nothing of ufo2ft"""
    from ufo2ft.util import _GlyphSet
    from ufo2ft.filters.propagateAnchors import PropagateAnchorsFilter
    from fontTools.pens.boundsPen import BoundsPen
    from fontTools.pens.transformPen import TransformPen
    mom_cases, mom_meta = [], []
    for i in range(ctx.budget(12, 24)):
        lib = ["ufoLib2", "defcon"][i % 2]
        poly_bottom = [500, 480, 520][(i // 2) % 3]
        curve_first = (i // 6) % 2 == 0
        dy = [0, 0, 15, -15][(i // 3) % 4]          # offset of the polygon component
        curve = [[(Fr(-100), Fr(560), "curve"), (Fr(0), Fr(600), "line"), (Fr(100), Fr(560), "line"), (Fr(50), Fr(490), None), (Fr(-50), Fr(490), None)]]
        poly = [[(Fr(-100), Fr(poly_bottom), "line"), (Fr(100), Fr(poly_bottom), "line"), (Fr(0), Fr(poly_bottom + 80), "line")]]
        one = (Fr(1), Fr(0), Fr(0), Fr(1))
        comps = [("tildecomb", one + (Fr(0), Fr(0))), ("acutecomb", one + (Fr(0), Fr(dy)))]
        if not curve_first:
            comps.reverse()
        desc = {"glyphs": [
            {"name": "tildecomb", "unicodes": [0x303], "width": Fr(0), "contours": curve, "components": [],
             "anchors": [("_top", Fr(0), Fr(510)), ("top", Fr(0), Fr(640))]},
            {"name": "acutecomb", "unicodes": [0x301], "width": Fr(0), "contours": poly, "components": [],
             "anchors": [("_top", Fr(0), Fr(500)), ("top", Fr(0), Fr(720))]},
            {"name": "tildecomb_acutecomb", "unicodes": [], "width": Fr(0), "contours": [], "components": comps, "anchors": []}],
            "glyphOrder": ["tildecomb", "acutecomb", "tildecomb_acutecomb"],
            "lib": {"public.openTypeCategories": {"tildecomb": "mark", "acutecomb": "mark", "tildecomb_acutecomb": "mark"}}}
        case = {"filter": "PropagateAnchorsFilter", "lib": lib, "font": jsonable(desc), "level": "mark made of marks"}
        ctx.count(); ctx.klass("propagate: mark of marks, polygon bottom %d, %s first, dy %d" % (poly_bottom, "curve" if curve_first else "polygon", dy))
        ctx.nontriv(("mom", i, ctx.scale))
        try:
            font = build_font(desc, lib)
            gset = _GlyphSet.from_layer(font)
            before = geom.snapshot_glyphset(gset)
            PropagateAnchorsFilter()(font, gset)
            after = geom.snapshot_glyphset(gset)
            got = [(a.name, Fr(a.x), Fr(a.y)) for a in gset["tildecomb_acutecomb"].anchors]
            # the oracle: true outline bounds of every component as placed
            ref = build_font(desc, lib)
            dist = []
            for b, t in comps:
                bp = BoundsPen(None)
                ref[b].draw(TransformPen(bp, tuple(float(v) for v in t)))
                dist.append(bp.bounds[0] ** 2 + bp.bounds[1] ** 2)
        except Exception as e:
            ctx.spec_failure(case, "PropagateAnchorsFilter raised %s: %s\n%s" % (type(e).__name__, e, traceback.format_exc()[-1000:]))
            continue
        k = dist.index(min(dist))
        # ... and the transcription (Geometry/Propagate.v) with the promoted component as its input
        mom_cases.append(G.tup(G.lst([G.s(n) for n in desc["glyphOrder"]], "str"), G.lst([G.s(n) for n in desc["glyphOrder"]], "str"),
                               geom.g_glyphset(before), geom.g_glyphset(after), g_promo(promotions(build_font(desc, lib), after))))
        mom_meta.append(case)
        by = {g["name"]: {a[0]: (a[1], a[2]) for a in g["anchors"]} for g in desc["glyphs"]}
        (pb, pt), (mb, mt) = comps[k], comps[1 - k]
        want = {n: geom.apply_aff(pt, xy) for n, xy in by[pb].items()}
        want["top"] = geom.apply_aff(mt, by[mb]["top"])          # the other mark attaches by _top / top: `top` follows it
        if sorted(got) != sorted((n, x, y) for n, (x, y) in want.items()):
            ctx.spec_failure(dict(case, anchors=jsonable(got), outline_corner_distances=[float(d) for d in dist]),
                             "the mark ligature got anchors %r; component %r reaches closest to the origin (squared distances of the "
                             "outline's lower-left corners: %r), which gives %r" % (
                                 [(n, float(x), float(y)) for n, x, y in got], pb, [float(d) for d in dist],
                                 sorted((n, float(x), float(y)) for n, (x, y) in want.items())))


    pv = ctx.coq_eval("From U2F Require Import Base.Prelude Geometry.Model Geometry.Propagate.",
                      "fun c : (list str * list str * glyphset * glyphset * list (str * nat)) => let '(mk, incl, gs, gs', promo) := c in "
                      "match propagate_all_p mk promo incl gs with None => 4 | Some r => if glyphset_anchors_eqb r gs' then 3 else 2 end",
                      mom_cases, chunk=6, tag="PropagateMom")
    for v, case in zip(pv, mom_meta):
        if v is not None and v != 3:
            ctx.corr_mismatch(case, "Gallina propagate_all_p (Geometry/Propagate.v, promoted component supplied) differs from PropagateAnchorsFilter's anchors (code %s)" % v)


def ipropagate_section(ctx):
    """anchor propagation in its INTERPOLATABLE form, on families with a sparse master: Regular and Bold hold a -> Y -> X (a
    nested composite), the sparse master in between holds a and Y but not X; Y carries hand-placed anchors in the full masters or
    nowhere.  In EVERY master each composite ends up with the anchors the transcription (Geometry/Propagate.v, run on that master's
    own glyph set) gives it, hand-placed anchors stay, and a second run adds nothing"""
    from ufo2ft.util import _GlyphSet
    from ufo2ft.filters.propagateAnchors import PropagateAnchorsIFilter
    cases, meta = [], []
    one = (Fr(1), Fr(0), Fr(0), Fr(1))
    sq = lambda w: [[(Fr(0), Fr(0), "line"), (Fr(w - 50), Fr(0), "line"), (Fr(w - 50), Fr(300), "line"), (Fr(0), Fr(300), "line")]]
    for i in range(ctx.budget(8, 16)):
        lib = ["ufoLib2", "defcon"][i % 2]
        own = (i // 2) % 2 == 0                      # Y has hand-placed anchors in the full masters
        sparse_at = [1, 1, 0, 2][(i // 4) % 4]       # position of the sparse master in the list

        def master(k, sparse):
            w = 350 + 50 * k
            gl = [{"name": "a", "unicodes": [0x61], "width": Fr(w), "contours": sq(w), "components": [],
                   "anchors": [("top", Fr((w - 50) // 2), Fr(300)), ("bottom", Fr((w - 50) // 2), Fr(0))]},
                  {"name": "Y", "unicodes": [], "width": Fr(w), "contours": [], "components": [("a", one + (Fr(20 + k), Fr(0)))],
                   "anchors": [("top", Fr((w - 50) // 2 + 23), Fr(310))] if own and not sparse else []}]
            if not sparse:
                gl.append({"name": "X", "unicodes": [], "width": Fr(w), "contours": [], "anchors": [],
                           "components": [("Y", (Fr(1, 2), Fr(0), Fr(0), Fr(1, 2), Fr(5), Fr(7 + k)))]})
            return {"glyphs": gl, "glyphOrder": [g["name"] for g in gl]}
        order = [0, 1, 2]
        descs = [master(k, k == sparse_at) for k in order]
        case = {"ifilter": "PropagateAnchorsIFilter", "lib": lib, "sparse_master_at": sparse_at, "Y_has_own_anchors_in_full_masters": own,
                "masters": [jsonable(d) for d in descs]}
        ctx.count(); ctx.klass("interpolatable propagate: sparse master at %d, Y %s" % (sparse_at, "with own anchors" if own else "bare")); ctx.nontriv(("ipa", i, ctx.scale))
        try:
            fonts = [build_font(d, lib) for d in descs]
            gsets = [_GlyphSet.from_layer(f, copy=True) for f in fonts]
            before = [geom.snapshot_glyphset(g) for g in gsets]
            PropagateAnchorsIFilter()(fonts, gsets)
            after = [geom.snapshot_glyphset(g) for g in gsets]
            again = PropagateAnchorsIFilter()(fonts, gsets)
            after2 = [geom.snapshot_glyphset(g) for g in gsets]
        except Exception as e:
            ctx.spec_failure(case, "PropagateAnchorsIFilter raised %s: %s\n%s" % (type(e).__name__, e, traceback.format_exc()[-1000:]))
            continue
        if again or after2 != after:
            ctx.spec_failure(dict(case, second_run_modified=sorted(again)), "a second run of the interpolatable propagation modified %r" % sorted(again))
        for k, (b, a) in enumerate(zip(before, after)):
            nm = [g["name"] for g in b]
            cases.append(G.tup(G.lst([], "str"), G.lst([G.s(n) for n in nm], "str"), geom.g_glyphset(b), geom.g_glyphset(a), g_promo([])))
            meta.append(dict(case, master=k, anchors_after={g["name"]: jsonable(g["anchors"]) for g in a}))
    pv = ctx.coq_eval("From U2F Require Import Base.Prelude Geometry.Model Geometry.Propagate.",
                      "fun c : (list str * list str * glyphset * glyphset * list (str * nat)) => let '(mk, incl, gs, gs', promo) := c in "
                      "match propagate_all_p mk promo incl gs with None => 4 | Some r => if glyphset_anchors_eqb r gs' then 3 else 2 end",
                      cases, chunk=8, tag="IPropagate")
    for v, case in zip(pv, meta):
        if v is not None and v != 3:
            ctx.spec_failure(case, "master %d: after the interpolatable propagation the glyphs' anchors are %r, not what propagating within that "
                                   "master gives (Geometry/Propagate.v)" % (case["master"], case["anchors_after"]))


def explore(ctx):
    ifilter_section(ctx)
    ipropagate_section(ctx)
    mark_of_marks_section(ctx)
    from ufo2ft.util import _GlyphSet
    from ufo2ft.filters.decomposeComponents import DecomposeComponentsFilter
    from ufo2ft.filters.decomposeTransformedComponents import DecomposeTransformedComponentsFilter
    from ufo2ft.filters.flattenComponents import FlattenComponentsFilter
    from ufo2ft.filters.transformations import TransformationsFilter
    from ufo2ft.filters.propagateAnchors import PropagateAnchorsFilter

    def pick_include(rng, names):
        k = rng.random()
        if k < 0.5:
            return {}, set(names)
        # an EMPTY list is a list: include=[] selects nothing, exclude=[] excludes nothing
        if k < 0.56:
            return {"include": []}, set()
        if k > 0.96:
            return {"exclude": []}, set(names)
        sub = [n for n in names if rng.random() < 0.5]
        if k < 0.8:
            return {"include": sub}, set(sub)
        return {"exclude": sub}, set(names) - set(sub)

    rng = ctx.subrng("filters")
    pres, flat, trans, prop = ([], []), ([], []), ([], []), ([], [])
    matcases, matmeta = [], []
    for i in range(ctx.budget(90, 700)):
        desc = gen_component_font(rng, anchors=True, max_depth=4)
        if i % 5 in (3, 4):
            # a glyph that has anchors and an advance but neither contours nor components (a blank mark base / spacing glyph):
            # its anchors and advance are transformed and propagated like anyone's
            desc["glyphs"].append({"name": "blankbase", "unicodes": [], "width": Fr(360), "contours": [], "components": [],
                                   "anchors": [("top", Fr(180), Fr(300)), ("bottom", Fr(180), Fr(-20))]})
        if i % 5 == 3:
            # ... and a glyph with nothing in it at all but its advances
            desc["glyphs"].append({"name": "space", "unicodes": [0x20], "width": Fr(250), "contours": [], "components": [], "anchors": []})
        if i % 5 == 4:
            # always, for anchor propagation: a base with top / center / bottom, a mark that attaches at top (_top + top) and
            # ALSO carries a plain `center` anchor it does not attach by; composites of the two (plain, transformed, with an
            # anchor of their own): `top` follows the mark, `center` and `bottom` come from the BASE
            sqc = [[(Fr(0), Fr(0), "line"), (Fr(100), Fr(0), "line"), (Fr(100), Fr(100), "line"), (Fr(0), Fr(100), "line")]]
            one = (Fr(1), Fr(0), Fr(0), Fr(1))
            desc["glyphs"] += [
                {"name": "pa.base", "unicodes": [], "width": Fr(500), "contours": sqc, "components": [],
                 "anchors": [("top", Fr(250), Fr(600)), ("center", Fr(250), Fr(250)), ("bottom", Fr(250), Fr(0))]},
                {"name": "pa.ring", "unicodes": [], "width": Fr(0), "contours": sqc, "components": [],
                 "anchors": [("_top", Fr(0), Fr(500)), ("top", Fr(0), Fr(700)), ("center", Fr(0), Fr(580))]},
                {"name": "pa.oring", "unicodes": [], "width": Fr(500), "contours": [], "anchors": [],
                 "components": [("pa.base", one + (Fr(0), Fr(0))), ("pa.ring", one + (Fr(250), Fr(100)))]},
                {"name": "pa.oring.sc", "unicodes": [], "width": Fr(400), "contours": [], "anchors": [],
                 "components": [("pa.base", (Fr(3, 4), Fr(0), Fr(0), Fr(3, 4), Fr(10), Fr(0))), ("pa.ring", (Fr(3, 4), Fr(0), Fr(1, 4), Fr(3, 4), Fr(200), Fr(80)))]},
                {"name": "pa.oring.own", "unicodes": [], "width": Fr(500), "contours": [], "anchors": [("center", Fr(1), Fr(2))],
                 "components": [("pa.base", one + (Fr(0), Fr(0))), ("pa.ring", one + (Fr(250), Fr(100)))]}]
        names = [g["name"] for g in desc["glyphs"]]
        # vertical advances on some glyphs (fonts with vertical metrics): the two advances are two vectors
        for k, g in enumerate(desc["glyphs"]):
            g["height"] = Fr([0, 1000, 880, 0][k % 4])
        lib = rng.choice(["ufoLib2", "defcon"])
        which = ["decompose", "decompose_transformed", "flatten", "transform", "propagate"][i % 5]
        kw, included = pick_include(rng, names)
        font = build_font(desc, lib)
        gset = _GlyphSet.from_layer(font)
        before = geom.snapshot_glyphset(gset)
        case = {"font": jsonable(desc), "lib": lib, "filter": which, "include_args": jsonable(kw)}
        try:
            if which == "decompose":
                modified = DecomposeComponentsFilter(**kw)(font, gset)
            elif which == "decompose_transformed":
                modified = DecomposeTransformedComponentsFilter(**kw)(font, gset)
            elif which == "flatten":
                modified = FlattenComponentsFilter(**kw)(font, gset)
            elif which == "transform":
                tcount = ctx.notes["transform_cases"] = ctx.notes.get("transform_cases", 0) + 1
                sx, sy = rng.choice([100, 100, 50, 200, 25, 400, -100]), [50, 200, 100, -100, 50, 100][tcount % 6]
                opts = {"OffsetX": rng.choice([0, 0, 10, -35]), "OffsetY": rng.choice([0, 0, 7, -100]),
                        "ScaleX": sx, "ScaleY": sy, "Origin": [1, 3, 4, 0, 2][tcount % 5]}
                if tcount % 6 == 2:
                    # a pure offset (no scale, no slant): bases and composites both move, every component matrix -- mirrored,
                    # scaled, sheared -- must be compensated
                    opts.update(ScaleX=100, ScaleY=100, OffsetX=[10, -35, 40][tcount % 3], OffsetY=[0, 7, -100][(tcount // 3) % 3])
                    sx = sy = 100
                # heights whose halves end in .5 with an even and with an odd integer part, plain ones, zero
                cap, xh = [645, 701, 700, 650, 0, 647][tcount % 6], [449, 453, 500, 480, 451][tcount % 5]
                font.info.capHeight = cap
                font.info.xHeight = xh
                angle = [0, 0, 0, 10, 0, 0, 0, -12.5, 0, 0, 0, 20][tcount % 12]
                if angle:
                    opts["Slant"] = angle
                case["options"] = dict(opts, capHeight=cap, xHeight=xh)
                f = TransformationsFilter(**opts, **kw)
                modified = f(font, gset)
                # the REQUESTED matrix, stated independently of the filter: offset, then scaling about the origin height
                # (cap height, x-height, their halves rounded half up, or the baseline)
                h = {0: Fr(cap), 1: Fr(geom.ot_round(Fr(cap, 2))), 2: Fr(xh), 3: Fr(geom.ot_round(Fr(xh, 2))), 4: Fr(0)}[opts["Origin"]]
                fx, fy = Fr(sx, 100), Fr(sy, 100)
                if sx == 100 and sy == 100 and not angle:
                    h = Fr(0)
                # slanting (x += tan(angle) * (y - h)) happens before the scaling, both about the origin height
                import math
                t = Fr(math.tan(math.radians(angle))) if angle else Fr(0)
                m = (fx, Fr(0), fx * t, fy, Fr(opts["OffsetX"]) - fx * t * h, Fr(opts["OffsetY"]) + h - fy * h)
                case["matrix"] = jsonable(m)
                case["filter_matrix"] = jsonable(tuple(Fr(v) for v in f.context.matrix))
                # the check's requested matrix is the Gallina build_matrix (the filter's steps in the filter's order, proved
                # equal to the closed form); the filter's own float matrix must agree with it (exactly without slant)
                matcases.append(G.tup(geom.g_q(Fr(opts["OffsetX"])), geom.g_q(Fr(opts["OffsetY"])), geom.g_q(fx), geom.g_q(fy),
                                      geom.g_q(t), geom.g_q(h), geom.g_affine(m)))
                matmeta.append(dict(case))
                fm = tuple(Fr(v) for v in f.context.matrix)
                if any(abs(a - b) > (Fr(1, 10 ** 9) if angle else 0) for a, b in zip(fm, m)):
                    ctx.spec_failure(case, "the filter's matrix %r is not the requested one %r" % ([float(v) for v in fm], [float(v) for v in m]))
            else:
                pfilt = PropagateAnchorsFilter(**kw)
                modified = pfilt(font, gset)
                # the same filter OBJECT on a fresh copy of the same font gives the same anchors (a build script keeps its filters
                # in a list and hands them to one font after the other)
                font_b = build_font(desc, lib)
                gset_b = _GlyphSet.from_layer(font_b)
                pfilt(font_b, gset_b)
                if geom.snapshot_glyphset(gset_b) != geom.snapshot_glyphset(gset):
                    ctx.spec_failure(case, "PropagateAnchorsFilter: the same filter object gives a second, identical font other anchors than the first")
        except Exception as e:
            ctx.spec_failure(case, "%s filter raised %s: %s\n%s" % (which, type(e).__name__, e, traceback.format_exc()[-1200:]))
            continue
        after = geom.snapshot_glyphset(gset)
        ctx.count()
        ctx.klass("%s:%s" % (which, "all" if not kw else list(kw)[0]))
        if modified:
            ctx.nontriv((which, i, ctx.scale))
        g0, g1 = geom.g_glyphset(before), geom.g_glyphset(after)
        if which in ("decompose", "decompose_transformed"):
            pres[0].append(G.tup(g0, g1, G.lst([G.s(n) for n in names], "str")))
            pres[1].append(case)
            if which == "decompose":
                by = {g["name"]: g for g in after}
                left = [n for n in included if by[n]["components"]]
                if left:
                    ctx.spec_failure(case, "included glyphs still have components after DecomposeComponentsFilter: %r" % left)
        elif which == "flatten":
            flat[0].append(G.tup(g0, g1, G.b(not kw)))
            flat[1].append(case)
        elif which == "transform":
            skipped = []
            if m == (1, 0, 0, 1, 0, 0):
                incl_eff = []
            else:
                by0 = {g["name"]: g for g in before}

                def reach(n, acc):
                    for b, _ in by0[n]["components"]:
                        if b not in acc:
                            acc.add(b)
                            reach(b, acc)
                    return acc
                # an excluded composite that sits between two included glyphs is left alone by design, so the
                # included glyph above it cannot be mapped exactly: the statement is checked for included glyphs
                # all of whose references stay inside the included set (or reach only untouched glyphs)
                tainted = {n for n in names if n not in included and any(d in included for d in reach(n, set()))}
                # (a glyph with nothing in it -- space -- is included like anyone: its advances are mapped too, F44)
                incl_eff = [n for n in names if n in included and not (reach(n, set()) & tainted)]
                skipped = [n for n in names if n in included and (reach(n, set()) & tainted)]
                if skipped:
                    ctx.klass("transform:included-above-excluded-composite(not guaranteed)", len(skipped))
            # both advances, by the matrix: the horizontal advance is the vector (width, 0), the vertical one (0, height)
            b0h, b1h = {g["name"]: g for g in before}, {g["name"]: g for g in after}
            for n in incl_eff:
                tolq = Fr(1, 10 ** 6) if case["options"].get("Slant") else 0
                if abs(b1h[n]["width"] - m[0] * b0h[n]["width"]) > tolq or abs(b1h[n]["height"] - m[3] * b0h[n]["height"]) > tolq:
                    ctx.spec_failure(dict(case, glyph=n), "advances of %r: (width %s, height %s) became (%s, %s); the matrix maps the horizontal advance to %s and the vertical one to %s" % (
                        n, b0h[n]["width"], b0h[n]["height"], float(b1h[n]["width"]), float(b1h[n]["height"]), float(m[0] * b0h[n]["width"]), float(m[3] * b0h[n]["height"])))
                    break
            if case["options"].get("Slant"):
                # tan(angle) is irrational: the filter's float arithmetic is not the exact rational arithmetic of the
                # Gallina model, so slanted cases are judged here against the same statement with a 1e-6 tolerance
                ctx.klass("transform:slant (float tangent: judged outside Coq, tolerance 1e-6)")
                slant_check(ctx, case, m, incl_eff, skipped, before, after)
                continue
            trans[0].append(G.tup(geom.g_affine(m), G.lst([G.s(n) for n in incl_eff], "str"),
                                  G.lst([G.s(n) for n in skipped], "str"), g0, g1, G.b(not kw)))
            trans[1].append(case)
        else:
            check_propagate(ctx, case, before, after, font, kw, lib, desc)
            # the transcription (Geometry/Propagate.v) on the same glyph set: same anchors, glyph by glyph
            prop[0].append(G.tup(G.lst([], "str"), G.lst([G.s(n) for n in names if n in included], "str"), g0, g1,
                                 g_promo(promotions(build_font(desc, lib), after))))
            prop[1].append(case)
    mv = ctx.coq_eval("From Coq Require Import QArith Qcanon.\nFrom U2F Require Import Base.Prelude Geometry.Model Geometry.TransformMatrix.",
                      "fun c : (Qc * Qc * Qc * Qc * Qc * Qc * affine) => let '(ox, oy, fx, fy, t, h, m) := c in "
                      "if affine_eqb (build_matrix ox oy fx fy t h) m then 3 else 2", matcases, chunk=100, tag="Matrix")
    for v, case in zip(mv, matmeta):
        if v is not None and v != 3:
            ctx.corr_mismatch(case, "the check's requested matrix differs from the Gallina build_matrix (TransformationsFilter.set_context, step by step)")
    pv = ctx.coq_eval("From U2F Require Import Base.Prelude Geometry.Model Geometry.Propagate.",
                      "fun c : (list str * list str * glyphset * glyphset * list (str * nat)) => let '(mk, incl, gs, gs', promo) := c in "
                      "match propagate_all_p mk promo incl gs with None => 4 | Some r => if glyphset_anchors_eqb r gs' then 3 else 2 end",
                      prop[0], chunk=6, tag="Propagate")
    for v, case in zip(pv, prop[1]):
        if v == 4:
            ctx.corr_mismatch(case, "Gallina propagate_all_p answers None (a glyph outside the model) although the promotions were supplied")
        elif v is not None and v != 3:
            ctx.corr_mismatch(case, "Gallina propagate_all (Geometry/Propagate.v) differs from PropagateAnchorsFilter's anchors")
    for (cases, meta), fn, tag, msg in (
            (pres, FN_PRES, "Pres", "resolved outlines changed by the decomposing filter (Coq render_preserved false)"),
            (flat, FN_FLAT, "Flat", "flattening changed the resolved outlines or left nesting deeper than one level"),
            (trans, FN_TRANS, "Trans", "included glyphs are not mapped by exactly the requested matrix, or an excluded glyph changed")):
        vals = ctx.coq_eval(IMPORTS, fn, cases, chunk=6, tag=tag)
        for v, case in zip(vals, meta):
            if v is None:
                continue
            if not v & 2:
                ctx.spec_failure(case, msg)
            elif not v & 1:
                ctx.corr_mismatch(case, "Gallina model (flatten_glyph / transform_set) differs from the filter's output")
        if meta:
            ctx.sample({"filter": meta[0]["filter"], "include_args": meta[0]["include_args"],
                        "glyphs": meta[0]["font"]["glyphs"][:2]})


def _seg_numbers(segs):
    out = []
    for s in segs:
        if s[0] == "blob":
            out.append(("blob", len(s[1]))); out.extend(v for p in s[1] for v in p)
            continue
        kind, start, sg, trailing = s
        out.append((kind, len(sg), len(trailing))); out.extend(start)
        for g in sg:
            out.append(g[0])
            if g[0] == "line":
                out.extend(g[1])
            else:
                out.extend(v for p in g[1] for v in p); out.extend(g[2])
        out.extend(v for p in trailing for v in p)
    return out


def _close(a, b, tol=Fr(1, 10 ** 6)):
    if len(a) != len(b):
        return False
    for x, y in zip(a, b):
        if isinstance(x, (str, tuple)) or isinstance(y, (str, tuple)):
            if x != y:
                return False
        elif abs(Fr(x) - Fr(y)) > tol:
            return False
    return True


def slant_check(ctx, case, m, incl_eff, skipped, before, after):
    """every effectively included glyph's resolved outline, anchors and advance are mapped by the requested matrix;
    every other glyph (except the not-guaranteed ones) is untouched"""
    b0 = {g["name"]: g for g in before}
    b1 = {g["name"]: g for g in after}
    f = lambda pt: geom.apply_aff(m, pt)
    for n in b0:
        if n in skipped:
            continue
        if n not in incl_eff:
            if b0[n] != b1[n] and (b0[n]["contours"] or b0[n]["components"] or b0[n]["anchors"]) and n not in case.get("_included", [n]):
                ctx.spec_failure(dict(case, glyph=n), "a glyph outside the include set was changed by the slanting transformation")
            continue
        # (for a mirroring matrix: up to the direction of each contour, exactly as transformed_ok in Geometry/Filters.v --
        # own contours are mapped without reversal while references to untouched glyphs reverse when resolved)
        want = [geom.map_segments(sg, f) for sg in geom.ref_resolve(b0, n)]
        got = geom.ref_resolve(b1, n)
        mirrors = m[0] * m[3] - m[1] * m[2] < 0
        if len(want) != len(got) or not all(
                _close(_seg_numbers([w]), _seg_numbers([g])) or
                (mirrors and _close(_seg_numbers([geom.closed_reverse(w)]), _seg_numbers([g]))) for w, g in zip(want, got)):
            ctx.spec_failure(dict(case, glyph=n), "resolved outline of %r is not the source outline mapped by the requested "
                                                  "(offset, origin, scale, slant) matrix" % n)
            return
        wa = [v for a in b0[n]["anchors"] for v in (a[0],) + tuple(f((Fr(a[1]), Fr(a[2]))))]
        ga = [v for a in b1[n]["anchors"] for v in (a[0], a[1], a[2])]
        if not _close(wa, ga):
            ctx.spec_failure(dict(case, glyph=n), "anchors of %r are not mapped by the requested matrix" % n)
            return
        if abs(Fr(b1[n]["width"]) - m[0] * Fr(b0[n]["width"])) > Fr(1, 10 ** 6):
            ctx.spec_failure(dict(case, glyph=n), "advance of %r is not scaled by ScaleX" % n)
            return


def check_propagate(ctx, case, before, after, font, kw, lib, desc):
    """independent statement: original anchors untouched and first; every added anchor of a composite sits where
    some component maps the same-named (or unnumbered) anchor of its base; second run adds nothing"""
    from ufo2ft.util import _GlyphSet
    from ufo2ft.filters.propagateAnchors import PropagateAnchorsFilter
    b0 = {g["name"]: g for g in before}
    b1 = {g["name"]: g for g in after}
    for n, g in b0.items():
        g1 = b1[n]
        if g1["contours"] != g["contours"] or g1["components"] != g["components"] or g1["width"] != g["width"]:
            ctx.spec_failure(case, "PropagateAnchors changed outline/components/width of %r" % n)
        if g1["anchors"][:len(g["anchors"])] != g["anchors"]:
            ctx.spec_failure(case, "PropagateAnchors altered or overrode an existing anchor of %r" % n)
        own = {a[0] for a in g["anchors"]}
        for (an, x, y) in g1["anchors"][len(g["anchors"]):]:
            if an in own:
                ctx.spec_failure(case, "PropagateAnchors added a second %r anchor to %r" % (an, n))
            stem = an.rsplit("_", 1)[0] if "_" in an[1:] and an.rsplit("_", 1)[1].isdigit() else an
            ok = False
            for base, t in g["components"]:
                if base not in b1:
                    continue
                for (bn, bx, by) in b1[base]["anchors"]:
                    if bn in (an, stem) and geom.apply_aff(t, (bx, by)) == (x, y):
                        ok = True
            if not ok:
                ctx.spec_failure(case, "anchor %r of %r at (%s,%s) is not the image of any component base's anchor" % (an, n, x, y))
                continue
            # ... and of the RIGHT component: a component whose glyph has an attaching anchor ("_x") is a mark component; an
            # anchor comes from the base components, unless a mark component attaches by it ("_top" AND "top": then the
            # composite's "top" is the mark's), in which case the last such mark decides
            is_mark = lambda b: any(a[0].startswith("_") for a in b1[b]["anchors"])
            comps = [(b, t) for b, t in g["components"] if b in b1]
            bases = [(b, t) for b, t in comps if not is_mark(b)]
            if not bases:
                continue            # (a mark made of marks: one of them is promoted to base by position, not judged here)
            first = lambda b, nm: next(((ax, ay) for (bn, ax, ay) in b1[b]["anchors"] if bn == nm), None)
            attaching = [(b, t) for b, t in comps if is_mark(b) and first(b, an) is not None and first(b, "_" + an) is not None]
            if attaching:
                b, t = attaching[-1]
                want = geom.apply_aff(t, first(b, an))
                why = "the mark component %r attaches by it" % b
            else:
                have = [(b, t) for b, t in bases if first(b, an) is not None]
                hs = [(b, t) for b, t in bases if first(b, stem) is not None]
                if len(have) == 1:
                    want, why = geom.apply_aff(have[0][1], first(have[0][0], an)), "base component %r carries it" % have[0][0]
                elif stem != an and len(hs) > 1 and an.rsplit("_", 1)[1].isdigit() and 1 <= int(an.rsplit("_", 1)[1]) <= len(hs):
                    b, t = hs[int(an.rsplit("_", 1)[1]) - 1]
                    want, why = geom.apply_aff(t, first(b, stem)), "it is the numbered copy for base component %r" % b
                else:
                    continue        # (several base components with a literal numbered name: not judged)
            if want != (x, y):
                ctx.spec_failure(dict(case, glyph=n, anchor=an), "anchor %r of %r is at (%s,%s); %s, which puts it at (%s,%s)" % (
                    an, n, x, y, why, want[0], want[1]))
    # idempotence: run again on a fresh glyph set built from the propagated result
    font2 = build_font(desc, lib)
    gset2 = _GlyphSet.from_layer(font2)
    f = PropagateAnchorsFilter(**kw)
    f(font2, gset2)
    snap1 = geom.snapshot_glyphset(gset2)
    again = f(font2, gset2)
    snap2 = geom.snapshot_glyphset(gset2)
    if snap1 != snap2 or again:
        ctx.spec_failure(case, "PropagateAnchors is not idempotent: second run modified %r" % sorted(again))
