"""C14 -- filters touch only what they are asked to and report what they changed."""
import copy, traceback
from fractions import Fraction as Fr
from harness import gterm as G, geom, snap
from harness.fonts import build_font, gen_component_font, jsonable

PID = "C14"
LEVEL_TEXT = ("PARTIAL. Proved in Coq for the driver BaseFilter.__call__ over an ARBITRARY per-glyph filter body: a glyph that is "
              "not reported as modified is unchanged, only glyphs visited while included are reported, every call starts from an "
              "empty modified set; the driver instantiated with the decomposing body is compared (glyph set and modified set) with "
              "the real DecomposeComponentsFilter under include lists. That real filter objects carry no hidden state, do not "
              "write to the source font and report everything they changed is runtime behaviour a pure model cannot exhibit: it "
              "is observed for every shipped filter and three interpolatable filters -- semantic snapshots of glyph set and "
              "source font before/after, include / exclude / predicate variants, reuse of one filter object across fonts vs a "
              "fresh object.")
LEVEL_NOTE = ("Trusted: Coq kernel, hand model of the driver, harness snapshots. Known findings F4/F5 (ExplodeColorLayerGlyphs and "
              "DottedCircle write to the source font) are recognised by signature; F2 was repaired (fix: 4234b23).")
TECHNIQUE = "Coq theorems about the filter driver for arbitrary filter bodies + correspondence on the decompose instance; before/after snapshots of every shipped filter"
IMPORTS = "From U2F Require Import Base.Prelude Geometry.Model Geometry.Cff Geometry.Filters Filters.Framework."
RULE = ("random component fonts with anchors x 12 shipped filters (Decompose, DecomposeTransformed, Flatten, Transformations, "
        "PropagateAnchors, SkipExportGlyphs incl. the empty list, ReverseContourDirection, SortContours, RemoveOverlaps, "
        "CubicToQuadratic, DottedCircle, ExplodeColorLayerGlyphs) x include in {all, list, exclude list, predicate} x both UFO "
        "libraries; each filter object is then reused on a second font and compared with a fresh object; interpolatable "
        "variants on two masters. Non-trivial = the filter modified at least one glyph."
        " Inclusion kinds cycle (all / list / EMPTY list / exclusion / predicate); Transformations with every Origin on fonts whose metrics differ; a nested-first and a nested-last composite in every font.")
ASSUMPTIONS = []
F5_SIG = "DottedCircleFilter-writes-source-font"
F4_SIG = "ExplodeColorLayerGlyphs-writes-source-font"

FN = ("fun c : (list str * glyphset * glyphset * list str) => let '(incl, gs, gs', md) := c in "
      "if c14_decompose_check incl gs gs' md then 3 else 2")


def filters():
    from ufo2ft.filters.decomposeComponents import DecomposeComponentsFilter
    from ufo2ft.filters.decomposeTransformedComponents import DecomposeTransformedComponentsFilter
    from ufo2ft.filters.flattenComponents import FlattenComponentsFilter
    from ufo2ft.filters.transformations import TransformationsFilter
    from ufo2ft.filters.propagateAnchors import PropagateAnchorsFilter
    from ufo2ft.filters.skipExportGlyphs import SkipExportGlyphsFilter
    from ufo2ft.filters.reverseContourDirection import ReverseContourDirectionFilter
    from ufo2ft.filters.sortContours import SortContoursFilter
    from ufo2ft.filters.removeOverlaps import RemoveOverlapsFilter
    from ufo2ft.filters.cubicToQuadratic import CubicToQuadraticFilter
    from ufo2ft.filters.dottedCircle import DottedCircleFilter
    from ufo2ft.filters.explodeColorLayerGlyphs import ExplodeColorLayerGlyphsFilter
    return [
        ("DecomposeComponents", DecomposeComponentsFilter, (), {}),
        ("DecomposeTransformedComponents", DecomposeTransformedComponentsFilter, (), {}),
        ("FlattenComponents", FlattenComponentsFilter, (), {}),
        ("Transformations", TransformationsFilter, (), {"OffsetX": 10, "ScaleX": 50}),
        ("Transformations[origin]", TransformationsFilter, (), {"ScaleY": 50, "Slant": 10, "Origin": None}),
        ("PropagateAnchors", PropagateAnchorsFilter, (), {}),
        ("SkipExportGlyphs", SkipExportGlyphsFilter, "skip", {}),
        ("SkipExportGlyphs[]", SkipExportGlyphsFilter, ([],), {}),
        ("ReverseContourDirection", ReverseContourDirectionFilter, (), {}),
        ("SortContours", SortContoursFilter, (), {}),
        ("RemoveOverlaps", RemoveOverlapsFilter, (), {}),
        ("CubicToQuadratic", CubicToQuadraticFilter, (), {}),
        ("CubicToQuadratic[remember]", CubicToQuadraticFilter, (), {"rememberCurveType": True, "reverseDirection": False}),
        ("RemoveOverlaps[pathops]", RemoveOverlapsFilter, (), {"backend": "pathops"}),
        ("DecomposeTransformedComponents[pre]", DecomposeTransformedComponentsFilter, (), {"pre": True}),
        ("DottedCircle", DottedCircleFilter, (), {}),
        ("ExplodeColorLayerGlyphs", ExplodeColorLayerGlyphsFilter, (), {}),
    ]


def make_font(rng, lib, color=False, dotted=False):
    desc = gen_component_font(rng, n=rng.randint(4, 8), kinds=("line", "curve"), anchors=True, max_depth=3,
                              classes=["identity", "scale", "shear", "mirror_x", "general_small"])
    for i, g in enumerate(desc["glyphs"]):
        g["unicodes"] = [0x61 + i]
    # always one composite whose FIRST component is itself a composite and whose LAST one is a plain glyph (and the mirror image)
    composites = [g["name"] for g in desc["glyphs"] if g["components"]]
    plains = [g["name"] for g in desc["glyphs"] if not g["components"] and g["contours"]]
    if composites and plains:
        one = (Fr(1), Fr(0), Fr(0), Fr(1))
        c, q = rng.choice(composites), rng.choice(plains)
        desc["glyphs"].append({"name": "nested.first", "unicodes": [], "width": Fr(600), "contours": [], "anchors": [],
                               "components": [(c, one + (Fr(10), Fr(0))), (q, one + (Fr(300), Fr(20)))]})
        desc["glyphs"].append({"name": "nested.last", "unicodes": [], "width": Fr(600), "contours": [], "anchors": [],
                               "components": [(q, one + (Fr(0), Fr(-5))), (c, one + (Fr(250), Fr(0)))]})
    # a glyph with anchors and an advance but no outline at all: a filter that moves its anchors must report it
    desc["glyphs"].append({"name": "blankbase", "unicodes": [], "width": Fr(360), "contours": [], "components": [],
                           "anchors": [("top", Fr(180), Fr(300)), ("bottom", Fr(180), Fr(-20))]})
    # font-level metrics differ from font to font (a filter must not remember them)
    desc["info"] = {"capHeight": rng.choice([700, 600, 650, 720, 0]), "xHeight": rng.choice([500, 450, 520, 380]),
                    "ascender": rng.choice([800, 750]), "descender": rng.choice([-200, -250]), "unitsPerEm": rng.choice([1000, 2048])}
    if dotted:
        desc["glyphs"] = [g for g in desc["glyphs"] if g["name"] != "acutecomb"]
        for g in desc["glyphs"]:
            g["components"] = [(b, t) for b, t in g["components"] if b != "acutecomb"]
        desc["glyphs"].append({"name": "acutecomb", "unicodes": [0x301], "width": 0, "contours": [],
                               "anchors": [("_top", Fr(0), Fr(500))], "components": []})
        desc["lib"] = {"public.openTypeCategories": {"acutecomb": "mark"}}
        if dotted in ("present", "present-but-not-exported"):
            # the font has its own U+25CC glyph, which lacks the anchor the mark attaches to
            desc["glyphs"].append({"name": "dottedcircle", "unicodes": [0x25CC], "width": Fr(600), "components": [],
                                   "anchors": [("bottom", Fr(300), Fr(-20))] if rng.random() < 0.5 else [],
                                   "contours": [[(Fr(100), Fr(100), "line"), (Fr(500), Fr(100), "line"), (Fr(500), Fr(500), "line"), (Fr(100), Fr(500), "line")]]})
            if not any(n == "top" for g in desc["glyphs"] for n, *_ in g.get("anchors", [])):
                desc["glyphs"][0].setdefault("anchors", []).append(("top", Fr(100), Fr(500)))
    font = build_font(desc, lib)
    if color:
        names = [g["name"] for g in desc["glyphs"]][:2]
        layer = font.newLayer("color1")
        for k, n in enumerate(names):
            gl = layer.newGlyph(n)
            pen = gl.getPen()
            if k == 1:
                # a colour layer glyph that is a (nested) composite of glyphs living only in the colour layer: their
                # exploded copies are added glyphs too
                pen.addComponent("cpair", (1, 0, 0, 1, 20, 0))
            else:
                pen.moveTo((0, 0)); pen.lineTo((50, 0)); pen.lineTo((25, 50)); pen.closePath()
            gl.width = 500
        if len(names) > 1:
            gp = layer.newGlyph("cpair"); gp.width = 300
            gp.getPen().addComponent("cdot", (1, 0, 0, 1, 0, 10)); gp.getPen().addComponent("cdot", (-1, 0, 0, 1, 200, 10))
            gd = layer.newGlyph("cdot"); gd.width = 100
            pen = gd.getPen(); pen.moveTo((0, 0)); pen.lineTo((30, 0)); pen.lineTo((15, 30)); pen.closePath()
        font.lib["com.github.googlei18n.ufo2ft.colorLayerMapping"] = [["color1", 0]]
        font.lib["com.github.googlei18n.ufo2ft.colorPalettes"] = [[[1.0, 0.0, 0.0, 1.0]]]
    return desc, font


def reachable(desc, roots):
    by = {g["name"]: g for g in desc["glyphs"]}
    out, todo = set(), list(roots)
    while todo:
        n = todo.pop()
        for b, _ in by.get(n, {}).get("components", []):
            if b not in out:
                out.add(b)
                todo.append(b)
    return out


def after_color_layers_section(ctx):
    """a glyph set in which a KEY differs from the glyph object's own name -- what the colour-layer pre-filter leaves behind
    ('a.color1' holds the layer's glyph, still called 'a'): every filter run on it afterwards reports what it changed under the
    names of the glyph set it was given, and changes every entry it was asked to"""
    from ufo2ft.util import _GlyphSet
    from ufo2ft.filters.explodeColorLayerGlyphs import ExplodeColorLayerGlyphsFilter
    rng = ctx.subrng("after-colour-layers")
    wanted = ["Transformations", "ReverseContourDirection", "CubicToQuadratic", "DecomposeComponents", "SortContours", "FlattenComponents"]
    flist = [f for f in filters() if f[0] in wanted]
    for i in range(ctx.budget(len(flist), 3 * len(flist))):
        fname, cls, args, kwargs = flist[i % len(flist)]
        lib = ["ufoLib2", "defcon"][(i // len(flist)) % 2]
        desc, font = make_font(rng, lib, True, False)
        case = {"filter": fname, "kwargs": jsonable(kwargs), "font": jsonable(desc), "lib": lib, "level": "after the colour-layer filter"}
        try:
            gset = _GlyphSet.from_layer(font, copy=True)
            ExplodeColorLayerGlyphsFilter()(font, gset)
            renamed = sorted(k for k in gset.keys() if gset[k].name != k)
            before = snap.glyphset_snapshot(gset)
            modified = set(cls(*args, **kwargs)(font, gset))
            after = snap.glyphset_snapshot(gset)
        except Exception as e:
            ctx.spec_failure(case, "%s raised %s: %s\n%s" % (fname, type(e).__name__, e, traceback.format_exc()[-1000:]))
            continue
        ctx.count(); ctx.klass("after colour layers: %s (%d entries whose key is not the glyph's name)" % (fname, len(renamed)))
        if renamed:
            ctx.nontriv(("acl", i, ctx.scale))
        changed = {n for n in set(before) | set(after) if before.get(n) != after.get(n)}
        if not changed <= modified:
            ctx.spec_failure(dict(case, entries_whose_key_is_not_the_name=renamed),
                             "%s changed %r without reporting them (reported %r)" % (fname, sorted(changed - modified), sorted(modified)))
        if not modified <= set(after) | set(before):
            ctx.spec_failure(dict(case, entries_whose_key_is_not_the_name=renamed),
                             "%s reported %r, which are not names of the glyph set" % (fname, sorted(modified - set(after) - set(before))))


def designspace_prefilter_section(ctx):
    """the interpolatable pre-processor driven by a designspace (glyphs the masters lack come from the instantiator): a lib
    filter that edits glyphs it reaches THROUGH the interpolated layers -- anchor propagation on `aacute -> a.alt = contour +
    component a` -- works on the copied glyph sets, whatever ran before it: no skip list, a skip list that prunes something, a
    STALE skip list (it names no glyph, the pruning reports nothing).  The sources stay as they were and the copies get the
    anchors"""
    import ufo2ft
    from harness import dsgen
    from ufo2ft.preProcessor import TTFInterpolatablePreProcessor, OTFInterpolatablePreProcessor
    from ufo2ft.instantiator import Instantiator
    rng = ctx.subrng("ds-prefilter")
    box = lambda x0, y0, x1, y1: [(Fr(x0), Fr(y0), "line"), (Fr(x1), Fr(y0), "line"), (Fr(x1), Fr(y1), "line"), (Fr(x0), Fr(y1), "line")]
    one = (Fr(1), Fr(0), Fr(0), Fr(1))
    for i in range(ctx.budget(12, 24)):
        lib = ["ufoLib2", "defcon"][i % 2]
        skipkind = ["stale", "none", "prunes", "stale"][(i // 2) % 4]
        how = ["TTFInterpolatablePreProcessor", "OTFInterpolatablePreProcessor", "compileInterpolatableTTFsFromDS"][(i // 8) % 3]

        def master(k):
            w = 60 * k
            gl = [{"name": "a", "unicodes": [0x61], "width": Fr(500 + w), "contours": [box(50, 0, 400 + w, 500)], "components": [],
                   "anchors": [("top", Fr(250), Fr(520)), ("bottom", Fr(250), Fr(-10))]},
                  {"name": "acutecomb", "unicodes": [0x301], "width": Fr(0), "contours": [box(-50, 550, 50, 650 + w)], "components": [], "anchors": [("_top", Fr(0), Fr(520))]},
                  {"name": "a.alt", "unicodes": [], "width": Fr(500 + w), "contours": [box(400, 0, 480 + w, 60)], "components": [("a", one + (Fr(0), Fr(0)))], "anchors": []},
                  {"name": "aacute", "unicodes": [0xE1], "width": Fr(500 + w), "contours": [], "anchors": [],
                   "components": [("a.alt", one + (Fr(0), Fr(0))), ("acutecomb", one + (Fr(250), Fr(0)))]},
                  {"name": "part", "unicodes": [], "width": Fr(300), "contours": [box(0, 0, 100 + w, 100)], "components": [], "anchors": []}]
            return {"glyphs": gl, "glyphOrder": [g["name"] for g in gl], "kerning": {}, "groups": {}, "features": "",
                    "lib": {"com.github.googlei18n.ufo2ft.filters": [{"name": "propagateAnchors", "pre": True}]},
                    "info": {"familyName": "Fam", "styleName": "Master%d" % k, "unitsPerEm": 1000, "ascender": 800, "descender": -200}}
        masters = [master(0), master(2)]
        ds, fonts = dsgen.make_designspace(rng, masters, lib, instances=False)
        skip = {"stale": ["_part.removed"], "none": [], "prunes": ["part"]}[skipkind]
        if skip:
            ds.lib["public.skipExportGlyphs"] = list(skip)
        case = {"how": how, "lib": lib, "skip_list": skip, "skip_kind": skipkind, "font": jsonable(masters[0])}
        ctx.count(); ctx.klass("designspace pre-filter: %s, skip list %s" % (how, skipkind)); ctx.nontriv(("dspf", i, ctx.scale))
        try:
            src0 = [snap.font_snapshot(f) for f in fonts]
            if how.endswith("PreProcessor"):
                cls = TTFInterpolatablePreProcessor if how.startswith("TTF") else OTFInterpolatablePreProcessor
                gsets = cls(fonts, skipExportGlyphs=skip, instantiator=Instantiator.from_designspace(ds, round_geometry=False)).process()
                got = [[(a.name, a.x, a.y) for a in gs["a.alt"].anchors] for gs in gsets]
            else:
                ufo2ft.compileInterpolatableTTFsFromDS(ds)
                got = None
            src1 = [snap.font_snapshot(f) for f in fonts]
        except Exception as e:
            ctx.spec_failure(case, "%s raised %s: %s\n%s" % (how, type(e).__name__, e, traceback.format_exc()[-1000:]))
            continue
        if src0 != src1:
            diff = [k for k in range(len(fonts)) if src0[k] != src1[k]]
            ctx.spec_failure(dict(case, masters_changed=diff), "a lib filter run by %s wrote to the source font(s) %r" % (how, diff))
        if got is not None and any(sorted(n for n, _x, _y in g) != ["bottom", "top"] for g in got):
            ctx.spec_failure(dict(case, anchors_of_a_alt=got), "the copies of 'a.alt' that the pre-processor returns carry the anchors %r; the "
                             "propagation gives it top and bottom (from its component a) in every master" % got)


def colour_reuse_section(ctx):
    """one ExplodeColorLayerGlyphsFilter OBJECT handed two fonts in a row: the first already carries an explicit colorLayers
    mapping (nothing to explode: the filter leaves it alone), the second has colour layers to explode.  On the second font the
    reused object does what a fresh one does (each on its own fresh copy of the font: the filter writes to its source, F4)"""
    from ufo2ft.util import _GlyphSet
    from ufo2ft.filters.explodeColorLayerGlyphs import ExplodeColorLayerGlyphsFilter
    rng = ctx.subrng("colour-reuse")
    for i in range(ctx.budget(4, 12)):
        lib = ["ufoLib2", "defcon"][i % 2]
        order = ["exploded first", "layered first"][(i // 2) % 2]
        seed = rng.randrange(10 ** 6)
        import random as _r
        mk = lambda: make_font(_r.Random(seed), lib, True, False)
        desc, _f = mk()
        case = {"filter": "ExplodeColorLayerGlyphs", "font": jsonable(desc), "lib": lib, "sequence": order}
        ctx.count(); ctx.klass("colour filter object reused: %s" % order); ctx.nontriv(("cre", i, ctx.scale))
        try:
            def run(filt, font):
                gs = _GlyphSet.from_layer(font, copy=True)
                m = set(filt(font, gs))
                return sorted(m), snap.glyphset_snapshot(gs)
            pre = mk()[1]
            pre.lib["com.github.googlei18n.ufo2ft.colorLayers"] = {"a": [("a", 0)]}
            reused = ExplodeColorLayerGlyphsFilter()
            if order == "exploded first":
                run(reused, pre)
            else:
                run(reused, mk()[1]); run(reused, pre)
            got = run(reused, mk()[1])
            want = run(ExplodeColorLayerGlyphsFilter(), mk()[1])
        except Exception as e:
            ctx.spec_failure(case, "ExplodeColorLayerGlyphsFilter raised %s: %s\n%s" % (type(e).__name__, e, traceback.format_exc()[-1000:]))
            continue
        if got != want:
            ctx.spec_failure(dict(case, reused_reports=got[0], fresh_reports=want[0]),
                             "a reused ExplodeColorLayerGlyphsFilter object reports %r on the next font, a fresh one %r" % (got[0], want[0]))


def explore(ctx):
    colour_reuse_section(ctx)
    designspace_prefilter_section(ctx)
    after_color_layers_section(ctx)
    from ufo2ft.util import _GlyphSet
    rng = ctx.subrng("filters")
    flist = filters()
    cases, meta = [], []
    for i in range(ctx.budget(7 * len(flist), 35 * len(flist))):
        fname, cls, args, kwargs = flist[i % len(flist)]
        lib = ["ufoLib2", "defcon"][(i // len(flist)) % 2]
        color = fname == "ExplodeColorLayerGlyphs"
        dotted = fname == "DottedCircle"
        if dotted:
            # no U+25CC glyph (the filter draws one) / the font has one / has one that is not in the glyph set being processed
            dotted = ["absent", "present", "present-but-not-exported"][(i // len(flist)) % 3]
        desc, font = make_font(rng, lib, color, dotted)
        desc2, font2 = make_font(rng, lib, color, dotted)
        names = [g["name"] for g in desc["glyphs"]]
        if args == "skip":
            args = ([n for n in names if rng.random() < 0.4] or names[:1],)
        inc_kind = ["all", "include", "empty-include", "exclude", "predicate", "all", "include"][(i // len(flist)) % 7]
        kw = dict(kwargs)
        if "Origin" in kw and kw["Origin"] is None:
            kw["Origin"] = rng.randint(0, 4)
        included = set(names)
        sub = [n for n in names if rng.random() < 0.5]
        if inc_kind == "empty-include":
            kw["include"] = rng.choice([[], (), set()]); included = set()      # an empty list includes nothing
        elif inc_kind == "include":
            kw["include"] = list(sub); included = set(sub)
        elif inc_kind == "exclude":
            kw["exclude"] = list(sub); included = set(names) - set(sub)
        elif inc_kind == "predicate":
            kw["include"] = lambda g: len(g) > 0 or len(g.components) > 1
        case = {"filter": fname, "args": jsonable(args), "kwargs": {k: (v if not callable(v) else "lambda g: len(g) > 0 or len(g.components) > 1") for k, v in kw.items()},
                "font": jsonable(desc), "lib": lib}
        try:
            filt = cls(*args, **kw)
            src0 = snap.font_snapshot(font)
            gset = _GlyphSet.from_layer(font, copy=True, skipExportGlyphs=["dottedcircle"] if dotted == "present-but-not-exported" else None)
            if dotted:
                ctx.klass("DottedCircle: U+25CC glyph " + dotted)
                case["dotted_circle_glyph"] = dotted
            if inc_kind == "predicate":
                included = {n for n in gset if len(gset[n]) > 0 or len(gset[n].components) > 1}
            before = snap.glyphset_snapshot(gset)
            before_geo = geom.snapshot_glyphset(gset)
            modified = set(filt(font, gset))
            after = snap.glyphset_snapshot(gset)
            src1 = snap.font_snapshot(font)
        except Exception as e:
            if fname.startswith("RemoveOverlaps") and type(e).__name__ in ("PathOpsError", "BooleanOperationsError", "UnsupportedContourError"):
                # the boolean-operations backend gives up on some random self-touching outlines: a limit of that library
                # (environment), not of the filter protocol this property is about
                ctx.klass("overlap backend gave up on a random outline (environment)")
                continue
            ctx.spec_failure(case, "%s raised %s: %s\n%s" % (fname, type(e).__name__, e, traceback.format_exc()[-1200:]))
            continue
        ctx.count()
        ctx.klass("%s/%s" % (fname, inc_kind))
        if modified:
            ctx.nontriv((fname, i, ctx.scale))
        changed = {n for n in set(before) | set(after) if before.get(n) != after.get(n)}
        if not changed <= modified:
            ctx.spec_failure(case, "%s changed %r without reporting them (reported %r)" % (fname, sorted(changed - modified), sorted(modified)))
        allowed = included | reachable(desc, included) | (set(after) - set(before))
        if fname.startswith("SkipExportGlyphs"):
            allowed |= set(args[0])
        if fname in ("DottedCircle",):
            allowed |= set(after)      # inserts dotted circle anchors on marks' bases by design
        stray = changed - allowed
        if stray:
            ctx.spec_failure(case, "%s changed glyphs that are neither included nor referenced by an included glyph: %r" % (fname, sorted(stray)))
        if src0 != src1:
            d = snap.diff(src0, src1)
            # the known findings are writes to specific places: F5 the category / GDEF class of the dotted circle (font lib
            # or feature text), F4 the colour-layer mapping in the lib and the glyphs of the NON-default colour layers.
            # A write anywhere else (say, to a glyph of the default layer) is something else.
            full = snap.diff(src0, src1)
            where = {"DottedCircle": ("/lib/public.openTypeCategories", "/features"),
                     "ExplodeColorLayerGlyphs": ("/lib/com.github.googlei18n.ufo2ft.colorLayers", "/layers/color")}.get(fname)
            sig = {"DottedCircle": F5_SIG, "ExplodeColorLayerGlyphs": F4_SIG}.get(fname)
            if where is None or not all(x.startswith(where) for x in full):
                sig = None
            ctx.spec_failure(dict(case, source_diff=d[:6]), "%s wrote to the source font although it was given a separate glyph set: %s" % (fname, "; ".join(d[:3])),
                             signature=sig)
        # ---- statelessness: the same object on a second font vs a fresh object
        if not (color or dotted):     # those two mutate the source font (known findings F4/F5), judged above
            try:
                # a fresh object on a fresh copy of the SAME source must repeat the first result (nothing was left behind
                # in the source, e.g. a "already converted" marker in a lib)
                g1b = _GlyphSet.from_layer(font, copy=True)
                m1b = set(cls(*args, **kw)(font, g1b))
                if m1b != modified or snap.glyphset_snapshot(g1b) != after:
                    ctx.spec_failure(case, "%s: a second run on a fresh copy of the same source differs from the first "
                                           "(modified %r vs %r)" % (fname, sorted(m1b), sorted(modified)))
                g2a = _GlyphSet.from_layer(font2, copy=True)
                ma = set(filt(font2, g2a))
                sa = snap.glyphset_snapshot(g2a)
                g2b = _GlyphSet.from_layer(font2, copy=True)
                mb = set(cls(*args, **kw)(font2, g2b))
                sb = snap.glyphset_snapshot(g2b)
                if ma != mb or sa != sb:
                    ctx.spec_failure(case, "%s: a reused filter object behaves differently from a fresh one on the next font "
                                           "(modified %r vs %r)" % (fname, sorted(ma), sorted(mb)))
            except Exception as e:
                if fname.startswith("RemoveOverlaps") and type(e).__name__ in ("PathOpsError", "BooleanOperationsError", "UnsupportedContourError"):
                    ctx.klass("overlap backend gave up on a random outline (environment)")
                else:
                    ctx.spec_failure(case, "%s (second invocation) raised %s: %s\n%s" % (fname, type(e).__name__, e, traceback.format_exc()[-1000:]))
        # ---- driver model correspondence on the decompose instance
        if fname == "DecomposeComponents" and inc_kind in ("all", "include", "exclude"):
            cases.append(G.tup(G.lst([G.s(n) for n in names if n in included], "str"), geom.g_glyphset(before_geo),
                               geom.g_glyphset(geom.snapshot_glyphset(gset)), G.lst([G.s(n) for n in sorted(modified)], "str")))
            meta.append(case)
    vals = ctx.coq_eval(IMPORTS, FN, cases, chunk=6, tag="Drv")
    for v, case in zip(vals, meta):
        if v is not None and v != 3:
            ctx.corr_mismatch(case, "Gallina run_filter(f_decompose) differs from DecomposeComponentsFilter (glyph set or modified set)")
    if meta:
        ctx.sample({"filter": meta[0]["filter"], "kwargs": meta[0]["kwargs"]})
    ifilters(ctx)
    converted_filters_section(ctx)
    merge_level(ctx)


def merge_level(ctx):
    """Filters/FilterMerge.v against BaseInterpolatablePreProcessor._try_as_interpolatable_filter on random slots: filter
    objects of four classes (three with an interpolatable form, one without), differing options / pre / include / exclude
    lists, and None where a master lists fewer filters -- merged or not, and which glyphs the merged filter includes"""
    from types import SimpleNamespace
    from ufo2ft.preProcessor import BaseInterpolatablePreProcessor
    from ufo2ft.filters.flattenComponents import FlattenComponentsFilter
    from ufo2ft.filters.propagateAnchors import PropagateAnchorsFilter
    from ufo2ft.filters.skipExportGlyphs import SkipExportGlyphsFilter
    from ufo2ft.filters.sortContours import SortContoursFilter
    rng = ctx.subrng("merge")
    NAMES = ["a", "b", "c", "d"]
    CLASSES = [(1, FlattenComponentsFilter, True), (2, PropagateAnchorsFilter, True), (3, SkipExportGlyphsFilter, True), (4, SortContoursFilter, False)]
    cases, meta = [], []
    for i in range(ctx.budget(80, 500)):
        n = rng.randint(1, 4)
        same = rng.random() < 0.7
        c0 = rng.choice(CLASSES)
        slot, terms, desc = [], [], []
        for k in range(n):
            if rng.random() < 0.25 and (k > 0 or i % 2):
                slot.append(None); terms.append("(@None pfilter)"); desc.append(None)
                continue
            code, cls, _ = c0 if same else rng.choice(CLASSES)
            opt = 0
            args = ()
            if cls is SkipExportGlyphsFilter:
                opt = 0 if same or rng.random() < 0.7 else 1
                args = ([["zz"], ["yy"]][opt],)
            pre = True if same or rng.random() < 0.7 else False
            kind = rng.choice(["all", "include", "exclude"])
            sub = [x for x in NAMES if rng.random() < 0.5]
            kw = {"pre": pre}
            if kind == "include":
                kw["include"] = list(sub); spec = "(IncNames %s)" % G.lst([G.s(x) for x in sub], "str")
            elif kind == "exclude":
                kw["exclude"] = list(sub); spec = "(ExcNames %s)" % G.lst([G.s(x) for x in sub], "str")
            else:
                spec = "IncAll"
            slot.append(cls(*args, **kw))
            terms.append("(Some (mkPF %s %s %s %s))" % (G.z(code), G.z(opt), G.b(pre), spec))
            desc.append({"class": cls.__name__, "options": opt, "pre": pre, kind: sub})
        if all(x is None for x in slot):
            continue
        case = {"slot": desc}
        ctx.count(); ctx.klass("merge: %d entries%s" % (n, ", one missing" if None in slot else ""))
        try:
            got = BaseInterpolatablePreProcessor._try_as_interpolatable_filter(list(slot))
            if got is None:
                obs = "(@None (Z * bool * list bool))"
            else:
                code = next(c for c, cls, _ in CLASSES if type(got).__name__.startswith(cls.__name__.replace("Filter", "")))
                obs = "(Some (%s, %s, %s))" % (G.z(code), G.b(bool(got.pre)), G.lst([G.b(bool(got.include(SimpleNamespace(name=x)))) for x in NAMES], "bool"))
        except Exception as e:
            ctx.spec_failure(case, "_try_as_interpolatable_filter raised %s: %s" % (type(e).__name__, e))
            continue
        if None in slot or len({repr(d) for d in desc if d}) > 1:
            ctx.nontriv(("merge", i, ctx.scale))
        cases.append("(%s, %s)" % (G.lst(terms, "(option pfilter)"), obs))
        meta.append(dict(case, merged=None if got is None else type(got).__name__))
    vals = ctx.coq_eval("From U2F Require Import Base.Prelude Filters.FilterMerge.",
                        "fun c : (list (option pfilter) * option (Z * bool * list bool)) => let '(fs, obs) := c in "
                        "let names := [[97]; [98]; [99]; [100]]%%Z in "
                        "match try_merge (fun k => negb (Z.eqb k 4)) fs, obs with "
                        "| None, None => 3 | Some m, Some (k, p, bits) => if Z.eqb (m_class m) k && Bool.eqb (m_pre m) p && "
                        "list_eqb Bool.eqb (map (merged_includes m) names) bits then 3 else 2 | _, _ => 2 end".replace("%%", "%"),
                        cases, chunk=100, tag="Merge")
    for v, case in zip(vals, meta):
        if v is not None and v != 3:
            ctx.corr_mismatch(case, "Gallina try_merge (Filters/FilterMerge.v) differs from _try_as_interpolatable_filter")


def converted_filters_section(ctx):
    """plain filter objects (and lib filter entries) handed to the INTERPOLATABLE pre-processors are turned into their
    interpolatable forms: the include list / exclude list they were built with still decides which glyphs they touch.
    Judged against a run without the custom filter: the left-out composite is identical, the other one shows the filter"""
    from ufo2ft.preProcessor import TTFInterpolatablePreProcessor, OTFInterpolatablePreProcessor
    from ufo2ft.filters.propagateAnchors import PropagateAnchorsFilter
    from ufo2ft.filters.flattenComponents import FlattenComponentsFilter
    from ufo2ft.filters.decomposeComponents import DecomposeComponentsFilter
    from ufo2ft.filters.decomposeTransformedComponents import DecomposeTransformedComponentsFilter
    KEY = "com.github.googlei18n.ufo2ft.filters"
    sq = lambda x, y, d: [[(Fr(x), Fr(y), "line"), (Fr(x + d), Fr(y), "line"), (Fr(x + d), Fr(y + d), "line"), (Fr(x), Fr(y + d), "line")]]
    one = (Fr(1), Fr(0), Fr(0), Fr(1))
    FILTERS = [("propagateAnchors", PropagateAnchorsFilter), ("flattenComponents", FlattenComponentsFilter),
               ("decomposeComponents", DecomposeComponentsFilter), ("decomposeTransformedComponents", DecomposeTransformedComponentsFilter)]
    for i in range(ctx.budget(16, 32)):
        fname, cls = FILTERS[i % 4]
        how = ["exclude", "include"][(i // 4) % 2]
        via_lib = (i // 8) % 2 == 1
        lib = ["ufoLib2", "defcon"][i % 2]

        def master(k):
            d = 15 * k
            gl = [{"name": "a", "unicodes": [0x61], "width": Fr(500 + d), "contours": sq(50, 0, 300 + d), "components": [],
                   "anchors": [("top", Fr(250), Fr(520 + d)), ("bottom", Fr(250), Fr(-10))]},
                  {"name": "diercomb", "unicodes": [0x308], "width": Fr(0), "contours": sq(-60, 550, 40 + d), "components": [],
                   "anchors": [("_top", Fr(0), Fr(520)), ("top", Fr(0), Fr(700 + d))]},
                  {"name": "a.stack", "unicodes": [], "width": Fr(500 + d), "contours": [], "anchors": [], "components": [("a", one + (Fr(0), Fr(d)))]}]
            for nm, cp in (("adieresis", 0xE4), ("odieresis", 0xF6)):
                gl.append({"name": nm, "unicodes": [cp], "width": Fr(500 + d), "contours": [], "anchors": [],
                           "components": [("a.stack", one + (Fr(0), Fr(0))), ("diercomb", (Fr(7, 8), Fr(0), Fr(0), Fr(7, 8), Fr(250), Fr(10 + d)))]})
            entry = {"name": fname, "pre": True, how: ["adieresis"] if how == "exclude" else ["odieresis"]}
            return {"glyphs": gl, "glyphOrder": [g["name"] for g in gl], "lib": {KEY: [entry]} if via_lib else {}}
        descs = [master(0), master(2)]
        plain = [dict(d, lib={}) for d in descs]
        case = {"filter": fname, "restricted_by": how, "given_as": "lib entry" if via_lib else "filter object", "lib": lib, "font": jsonable(descs[0])}
        ctx.count(); ctx.klass("converted to interpolatable: %s/%s/%s" % (fname, how, "lib" if via_lib else "object")); ctx.nontriv(("conv", i, ctx.scale))
        try:
            PP = [TTFInterpolatablePreProcessor, OTFInterpolatablePreProcessor][(i // 2) % 2]
            kw = {} if via_lib else {"filters": [..., cls(pre=True, **{how: ["adieresis"] if how == "exclude" else ["odieresis"]})]}
            with_f = [snap.glyphset_snapshot(g) for g in PP([build_font(d, lib) for d in descs], **kw).process()]
            without = [snap.glyphset_snapshot(g) for g in PP([build_font(d, lib) for d in plain]).process()]
        except Exception as e:
            ctx.spec_failure(case, "raised %s: %s\n%s" % (type(e).__name__, e, traceback.format_exc()[-1000:]))
            continue
        for k, (a, b) in enumerate(zip(with_f, without)):
            if a.get("adieresis") != b.get("adieresis"):
                ctx.spec_failure(dict(case, master=k), "%s (%s) changed 'adieresis', which it was told to leave alone, in master %d" % (fname, how, k))
                break
        if PP is TTFInterpolatablePreProcessor and all(a.get("odieresis") == b.get("odieresis") for a, b in zip(with_f, without)):
            ctx.spec_failure(case, "%s (%s) did nothing to 'odieresis', which it was asked to process" % (fname, how))


def ifilters(ctx):
    """interpolatable variants on two compatible masters"""
    from ufo2ft.util import _GlyphSet
    from ufo2ft.filters.decomposeComponents import DecomposeComponentsIFilter
    from ufo2ft.filters.flattenComponents import FlattenComponentsIFilter
    from ufo2ft.filters.skipExportGlyphs import SkipExportGlyphsIFilter
    rng = ctx.subrng("ifilters")
    for i in range(ctx.budget(9, 60)):
        cls, args = [(DecomposeComponentsIFilter, ()), (FlattenComponentsIFilter, ()), (SkipExportGlyphsIFilter, "skip")][i % 3]
        desc = gen_component_font(rng, n=rng.randint(4, 7), kinds=("line", "curve"), max_depth=3,
                                  classes=["identity", "scale", "shear", "general_small"])
        names = [g["name"] for g in desc["glyphs"]]
        if args == "skip":
            args = ([n for n in names if rng.random() < 0.4],)
        fonts = [build_font(desc), build_font(desc)]
        uneven = cls is SkipExportGlyphsIFilter and (i // 3) % 2 == 0
        if uneven:
            # masters with different repertoires: the second (smaller) one holds two plain glyphs of the first plus a glyph of
            # its own, which is on the skip list -- a removal from ANY master has to be reported
            import copy as _copy
            small = {k: v for k, v in desc.items() if k != "glyphs"}
            small["glyphs"] = [_copy.deepcopy(g) for g in desc["glyphs"] if not g["components"]][:2] + [
                {"name": "extra.part", "unicodes": [], "width": Fr(300), "components": [], "anchors": [],
                 "contours": [[(Fr(0), Fr(0), "line"), (Fr(80), Fr(0), "line"), (Fr(40), Fr(90), "line")]]}]
            small["glyphOrder"] = [g["name"] for g in small["glyphs"]]
            fonts = [build_font(desc), build_font(small)]
            args = (list(args[0]) + ["extra.part"],)
            ctx.klass("ifilter: masters with different repertoires, a skipped glyph in the smaller one only")
        if cls is FlattenComponentsIFilter and (i // 3) % 2 == 1:
            # masters that differ in STRUCTURE: A -> B -> C in the first, A -> C (nothing nested) in the last one -- what was
            # changed in the first master is reported although the last one needed nothing
            one_ = (Fr(1), Fr(0), Fr(0), Fr(1))
            tri_ = [[(Fr(0), Fr(0), "line"), (Fr(80), Fr(0), "line"), (Fr(40), Fr(90), "line")]]
            mk_ = lambda a_comps: {"glyphs": [
                {"name": "C", "unicodes": [0x43], "width": Fr(300), "components": [], "anchors": [], "contours": tri_},
                {"name": "B", "unicodes": [0x42], "width": Fr(300), "contours": [], "anchors": [], "components": [("C", one_ + (Fr(10), Fr(0)))]},
                {"name": "A", "unicodes": [0x41], "width": Fr(300), "contours": [], "anchors": [], "components": a_comps}], "glyphOrder": ["C", "B", "A"]}
            desc = mk_([("B", one_ + (Fr(5), Fr(7)))])
            fonts = [build_font(desc), build_font(mk_([("C", one_ + (Fr(15), Fr(7)))]))]
            uneven = True
            ctx.klass("ifilter: masters of different structure (nested in the first only)")
        case = {"ifilter": cls.__name__, "args": jsonable(args), "font": jsonable(desc), "uneven_masters": uneven}
        try:
            filt = cls(*args)
            src0 = [snap.font_snapshot(f) for f in fonts]
            gsets = [_GlyphSet.from_layer(f, copy=True) for f in fonts]
            before = [snap.glyphset_snapshot(g) for g in gsets]
            modified = set(filt(fonts, gsets))
            after = [snap.glyphset_snapshot(g) for g in gsets]
            src1 = [snap.font_snapshot(f) for f in fonts]
            # same object again on fresh glyph sets vs fresh object
            g2 = [_GlyphSet.from_layer(f, copy=True) for f in fonts]
            m2 = set(filt(fonts, g2))
            g3 = [_GlyphSet.from_layer(f, copy=True) for f in fonts]
            m3 = set(cls(*args)(fonts, g3))
        except Exception as e:
            ctx.spec_failure(case, "%s raised %s: %s\n%s" % (cls.__name__, type(e).__name__, e, traceback.format_exc()[-1000:]))
            continue
        ctx.count(); ctx.klass("ifilter:" + cls.__name__)
        if modified:
            ctx.nontriv(("if", i, ctx.scale))
        for b, a in zip(before, after):
            changed = {n for n in set(b) | set(a) if b.get(n) != a.get(n)}
            if not changed <= modified:
                ctx.spec_failure(case, "%s changed %r without reporting" % (cls.__name__, sorted(changed - modified)))
        if src0 != src1:
            ctx.spec_failure(case, "%s wrote to a source font" % cls.__name__)
        if m2 != m3 or [snap.glyphset_snapshot(g) for g in g2] != [snap.glyphset_snapshot(g) for g in g3]:
            ctx.spec_failure(case, "%s: reused object differs from a fresh one (%r vs %r)" % (cls.__name__, sorted(m2), sorted(m3)))
        if not uneven and after[0] != after[1]:
            ctx.spec_failure(case, "%s treated two identical masters differently" % cls.__name__)
