"""C19 -- instances equal masters at master locations and the model's blend elsewhere."""
import copy, io, os, traceback
from fractions import Fraction as Fr
from harness import gterm as G, geom, snap, dsgen
from harness.fonts import build_font, jsonable

PID = "C19"
LEVEL_TEXT = ("PARTIAL. Proved in Coq for a two-master axis: an instance at a master's location is that master; anywhere else every "
              "number is the exact linear blend a + t(b - a) (and that formula meets the masters at the ends); swap_glyph_names does "
              "not move code points and, applied twice, restores kerning and group references (the renaming is an involution). The "
              "blend and the swap model are evaluated with vm_compute against Instantiator.generate_instance / swap_glyph_names on "
              "generated two-master families (coordinates, advances, anchors, kerning; with rounding on, each geometry value must be exactly otRound of the blend -- ties up, the rounding the instantiator announces -- and each kerning value an integer within 1/2 of it). For ANY number of masters and axes: the variation "
              "model as Variator uses it (getDeltas + interpolateFromDeltas, Interp/VarModel.v) reproduces every master at its "
              "location under the unit-lower-triangular hypothesis on the regions' scalars, which is evaluated on the real model of "
              "every generated family together with an exact comparison of deltas and interpolated values (one and two axes, "
              "intermediate masters, any input order); the two-master blend is proved to be that model. collect_glyph_masters is "
              "transcribed (Interp/GlyphMasters.v): the masters taking part do not depend on the order of the sources, the default "
              "and every outlined master always take part, a glyph empty in the default keeps all its masters -- exact "
              "correspondence on random source lists. Three-master families in all source orders are judged per segment by the "
              "blend statement. Also observed: the instance has exactly the default source's glyph set, rule swaps at a location, sources "
              "untouched by instance generation.")
LEVEL_NOTE = "Trusted: Coq kernel, hand models, harness; fontMath / varLib are environment."
TECHNIQUE = "Coq theorems (instance at master, exact linear blend, swap involution) + vm_compute correspondence with the Instantiator"
IMPORTS = "From U2F Require Import Base.Prelude Geometry.Model Interp.Instance."
RULE = ("two-master families (integer and fractional coordinates) instantiated at t in {0, 1/4, 1/2, 3/4, 1} with round_geometry "
        "on/off, both UFO libraries; per instance the vector of all coordinates, advances, anchor positions and kerning values is "
        "compared with the Gallina instance_at; random abstract fonts for swap_glyph_names (glyphs with components, kerning, "
        "groups); MutatorSans fixture for rules. Non-trivial = interior location, or a swap touching components/kerning/groups."
        " Generated designspace rules (overlapping ranges, a sub listed by several rules, chains, a missing glyph): the instance equals the rule-free instance with the active substitutions -- determined independently -- applied in document order.")
ASSUMPTIONS = ["IEEE evaluation of a + t(b-a) is exact for dyadic t and the generated coordinates"]

# with rounding on: the geometry values (everything but the nk kerning values at the end of the vector) are exactly otRound of
# the blend -- ties go up, the rounding the instantiator announces ("the same rounding function used by varLib") and the one the
# variable font's own deltas are rounded with; kerning values (rounded by fontMath's kerning object on its own) are integers
# within 1/2 of the blend
FN_BLEND = ("fun c : (vec * vec * Qc * bool * vec * nat) => let '(m0, m1, t, rnd, obs, nk) := c in "
            "let v := instance_at m0 m1 t in let ng := (length v - nk)%nat in "
            "if rnd then (if Nat.eqb (length v) (length obs) && forallb (fun vo => qc_leb (qc_abs (snd vo - fst vo)) (qq 1 2) && "
            "qc_eqb (snd vo) (qc_of_Z (otRound (snd vo)))) (combine v obs) && "
            "forallb (fun vo => qc_eqb (snd vo) (qc_of_Z (otRound (fst vo)))) (firstn ng (combine v obs)) then 3 else 0) "
            "else (if list_eqb qc_eqb v obs then 3 else 0)")
FN_SWAP = ("fun c : (str * str * sfont * option sfont) => let '(a, b, f, obs) := c in "
           "(if option_eqb sfont_eqb (swap_glyph_names a b f) obs then 1 else 0) + "
           "(match obs with Some f1 => match swap_glyph_names a b f1 with Some f2 => if sfont_eqb f2 f then 2 else 0 | None => 0 end | None => 2 end)")


def font_vector(font, names, kern_keys):
    v = []
    for n in names:
        g = font[n]
        cs, comps = geom.glyph_points(g)
        for c in cs:
            for x, y, _ in c:
                v += [x, y]
        for b, t in comps:
            v += [t[4], t[5]]
        v.append(Fr(g.width))
        for a in g.anchors:
            v += [Fr(a.x), Fr(a.y)]
    for k in kern_keys:
        v.append(Fr(font.kerning.get(k, 0)))
    return v


def g_vec(v):
    return G.lst([geom.g_q(x) for x in v], "Qc")


def varmodel_section(ctx, tag="c19"):
    """ufo2ft.instantiator.Variator (fontTools VariationModel underneath) on random master-location sets, one and two axes,
    intermediate and corner masters, any input order: the Gallina get_deltas / interpolate (Interp/VarModel.v) against
    getDeltas / interpolateFromMasters, the hypothesis rows_ok of model_reproduces_masters evaluated on the real model's
    scalars, and the statement itself on the implementation (interpolation at a master's location, WITHOUT the
    instance_at shortcut, gives that master)."""
    from ufo2ft.instantiator import Variator
    rng = ctx.subrng("varmodel-" + tag)
    GRID = [Fr(-1), Fr(-1, 2), Fr(0), Fr(1, 2), Fr(1)]
    PROBE = [Fr(k, 4) for k in range(-4, 5)]
    cases, meta = [], []
    for i in range(ctx.budget(40, 300)):
        naxes = 1 + (i % 3 > 0)
        axes = ["wght", "wdth"][:naxes]
        pts = {tuple(Fr(0) for _ in axes)}
        want = rng.randint(2, 5 if naxes == 1 else 7)
        while len(pts) < want:
            pts.add(tuple(rng.choice(GRID) for _ in axes))
        pts = list(pts)
        rng.shuffle(pts)                        # the default is not necessarily listed first
        values = [rng.randint(-500, 1500) for _ in pts]
        items = [({a: float(c) for a, c in zip(axes, p)}, v) for p, v in zip(pts, values)]
        case = {"axes": axes, "masters": [[[str(c) for c in p], v] for p, v in zip(pts, values)]}
        try:
            var = Variator.from_masters(items, axes)
            model = var.model
            rows = [[Fr(x) for x in model.getScalars(loc)] for loc in model.locations]
            ms = [values[model.reverseMapping[k]] for k in range(len(values))]
            deltas = [Fr(x) for x in model.getDeltas(values)]
            probes = []
            for loc in [dict(l) for l in model.locations] + [{a: float(rng.choice(PROBE)) for a in axes} for _ in range(3)]:
                full = {a: loc.get(a, 0.0) for a in axes}
                probes.append(([Fr(x) for x in model.getScalars(full)], Fr(model.interpolateFromMasters(full, values)), full))
            at_master = [(Fr(model.interpolateFromMasters({a: l.get(a, 0.0) for a in axes}, values)), Fr(var.instance_at({a: l.get(a, 0.0) for a in axes})))
                         for l in model.locations]
        except Exception as e:
            ctx.spec_failure(case, "Variator raised %s: %s\n%s" % (type(e).__name__, e, traceback.format_exc()[-800:]))
            continue
        ctx.count(); ctx.klass("variation model: %d axis/axes, %d masters" % (naxes, len(pts)))
        if len(pts) > 2:
            ctx.nontriv(("vm", tag, i, ctx.scale))
        for k, (a, b) in enumerate(at_master):
            if a != ms[k] or b != ms[k]:
                ctx.spec_failure(dict(case, master=k), "at master %d's location the model gives %s (instance_at: %s), the master is %s" % (k, a, b, ms[k]))
        q = lambda xs: G.lst([geom.g_q(x) for x in xs], "Qc")
        cases.append(G.tup(q([Fr(m) for m in ms]), G.lst([q(r) for r in rows], "(list Qc)"), q(deltas),
                           G.lst([G.tup(q(sc), geom.g_q(v)) for sc, v, _ in probes], "(list Qc * Qc)")))
        meta.append(dict(case, sorted_locations=[dict(l) for l in model.locations], deltas=[str(d) for d in deltas]))
    vals = ctx.coq_eval("From Coq Require Import QArith Qcanon.\nFrom U2F Require Import Base.Prelude Geometry.Model Interp.VarModel.",
                        "fun c : (list Qc * list (list Qc) * list Qc * list (list Qc * Qc)) => let '(ms, rows, deltas, probes) := c in "
                        "(if qc_list_eqb (get_deltas ms rows []) deltas && forallb (fun p => qc_eqb (interpolate (fst p) (get_deltas ms rows [])) (snd p)) probes "
                        "then 1 else 0) + (if rows_ok (length ms) rows then 2 else 0)", cases, chunk=60, tag="VarModel" + tag)
    for v, case in zip(vals, meta):
        if v is None:
            continue
        if not v & 2:
            ctx.corr_mismatch(case, "the real VariationModel's scalars at the master locations are not unit lower triangular "
                                    "(hypothesis rows_ok of model_reproduces_masters)")
        elif not v & 1:
            ctx.corr_mismatch(case, "Gallina get_deltas / interpolate differ from VariationModel.getDeltas / interpolateFromMasters")


def glyph_masters_section(ctx):
    """instantiator.collect_glyph_masters against Interp/GlyphMasters.v: sources in any order, the default anywhere, each
    source lacking the glyph (sparse layer), holding it empty, or with an outline"""
    from ufo2ft.instantiator import collect_glyph_masters, InstantiatorError
    import ufoLib2
    rng = ctx.subrng("glyph-masters")
    cases, meta = [], []
    for i in range(ctx.budget(80, 600)):
        n = rng.randint(1, 5)
        dflt = rng.randrange(n)
        locs = rng.sample([100, 200, 300, 400, 500, 700, 900], n)
        kinds = [rng.choice(["Absent", "Empty", "Empty", "Outlined", "Outlined"]) for _ in range(n)]
        if i % 4 == 0:
            kinds = ["Empty"] * n                      # a glyph that is empty everywhere (space)
        if rng.random() < 0.85 and kinds[dflt] == "Absent":
            kinds[dflt] = rng.choice(["Empty", "Outlined"])
        layers = []
        for k in range(n):
            f = ufoLib2.Font()
            if kinds[k] != "Absent":
                g = f.newGlyph("x"); g.width = 100 + 10 * k
                if kinds[k] == "Outlined":
                    pen = g.getPen(); pen.moveTo((0, 0)); pen.lineTo((10 + k, 0)); pen.lineTo((5, 10)); pen.closePath()
            layers.append(({"Weight": locs[k]}, f.layers.defaultLayer))
        case = {"sources": [{"location": locs[k], "default": k == dflt, "glyph": kinds[k]} for k in range(n)]}
        try:
            got = collect_glyph_masters(layers, "x", {"Weight": (min(locs), locs[dflt], max(locs))}, dflt)
            # identify kept masters by their advance width
            obs = "(Some %s)" % G.lst(["(mkSrc %s %s %s)" % (G.z(locs[int(m.width - 100) // 10]), G.b(int(m.width - 100) // 10 == dflt),
                                                               kinds[int(m.width - 100) // 10]) for _, m in got], "src")
            kept = [locs[int(m.width - 100) // 10] for _, m in got]
        except InstantiatorError:
            obs, kept = "(@None (list src))", None
        ctx.count(); ctx.klass("glyph masters: default %s, %s" % (kinds[dflt], "some other empty" if any(
            kinds[k] == "Empty" for k in range(n) if k != dflt) else "no other empty"))
        if n > 2 and dflt != 0:
            ctx.nontriv(("gm", i, ctx.scale))
        cases.append(G.tup(G.lst(["(mkSrc %s %s %s)" % (G.z(locs[k]), G.b(k == dflt), kinds[k]) for k in range(n)], "src"), obs))
        meta.append(dict(case, kept_locations=kept))
    vals = ctx.coq_eval("From U2F Require Import Base.Prelude Interp.GlyphMasters.",
                        "fun c : (list src * option (list src)) => if option_eqb (list_eqb src_eqb) (collect (fst c)) (snd c) then 3 else 2",
                        cases, chunk=200, tag="GlyphMasters")
    for v, case in zip(vals, meta):
        if v is not None and v != 3:
            ctx.corr_mismatch(case, "Gallina collect (Interp/GlyphMasters.v) differs from instantiator.collect_glyph_masters")


def two_axis_section(ctx):
    """Weight x Width families (three masters, or four with the corner), sources in varying order so that the last-listed one
    is off-default on some axis; instances at full locations AND at locations that leave an axis out (an omitted axis means
    that axis' default, as generate_instance documents) or are empty.  Expected values: fontTools' VariationModel over the
    masters' number vectors at the completed location (fontTools only, nothing of ufo2ft)."""
    from ufo2ft.instantiator import Instantiator
    from fontTools.designspaceLib import InstanceDescriptor
    from fontTools.varLib.models import VariationModel
    rng = ctx.subrng("two-axis")
    for i in range(ctx.budget(8, 40)):
        lib = ["ufoLib2", "defcon"][i % 2]
        base = dsgen.base_master(rng)
        corner = i % 2 == 1
        locs = [(100, 100), (900, 100), (100, 200)] + ([(900, 200)] if corner else [])
        masters = [base] + [dsgen.perturb(rng, base, k) for k in range(1, len(locs))]
        order = list(range(len(locs)))
        if i % 4 >= 2:
            order = order[1:] + order[:1]            # the default source is listed last
        elif i % 4 == 1:
            order = [0, 2, 1] + order[3:]
        ds, fonts_perm = dsgen.make_designspace(rng, [masters[k] for k in order], lib,
                                                axes=[("Weight", "wght", 100, 100, 900), ("Width", "wdth", 100, 100, 200)],
                                                locations=[{"Weight": locs[k][0], "Width": locs[k][1]} for k in order], instances=False)
        fonts = [None] * len(locs)
        for pos, k in enumerate(order):
            fonts[k] = fonts_perm[pos]
        names = [g["name"] for g in base["glyphs"]]
        kern_keys = sorted(set().union(*[set(m["kerning"]) for m in masters]))
        vecs = [[float(x) for x in font_vector(f, names, kern_keys)] for f in fonts]
        norm = lambda w, d: {"wght": (w - 100) / 800, "wdth": (d - 100) / 100}
        model = VariationModel([norm(*l) for l in locs], ["wght", "wdth"])
        info = {"source_order": [locs[k] for k in order], "corner_master": corner, "lib": lib}
        try:
            inst = Instantiator.from_designspace(ds, round_geometry=False)
        except Exception as e:
            ctx.spec_failure(dict(info, font=jsonable(base)), "Instantiator.from_designspace raised %s: %s" % (type(e).__name__, e))
            continue
        for given in ({"Weight": 500, "Width": 150}, {"Weight": 900}, {"Weight": 500}, {"Width": 200}, {"Width": 125}, {}, {"Weight": 900, "Width": 200}):
            full = (given.get("Weight", 100), given.get("Width", 100))
            d = InstanceDescriptor()
            d.familyName, d.styleName, d.location = "Fam", "I", dict(given)
            case = dict(info, font=jsonable(base), masters=[jsonable(m) for m in masters[1:]], instance_location_given=dict(given),
                        completed_location=full)
            ctx.count(); ctx.klass("two axes: instance location %s" % ("complete" if len(given) == 2 else "partial" if given else "empty"))
            ctx.nontriv(("2ax", i, tuple(sorted(given.items())), ctx.scale))
            try:
                f = inst.generate_instance(d)
            except Exception as e:
                ctx.spec_failure(case, "generate_instance raised %s: %s\n%s" % (type(e).__name__, e, traceback.format_exc()[-800:]))
                continue
            obs = [float(x) for x in font_vector(f, names, kern_keys)]
            want = [model.interpolateFromMasters(norm(*full), [v[j] for v in vecs]) for j in range(len(vecs[0]))]
            if len(obs) != len(want) or any(abs(a - b) > 1e-6 for a, b in zip(obs, want)):
                k = next((j for j, (a, b) in enumerate(zip(obs, want)) if abs(a - b) > 1e-6), None)
                ctx.spec_failure(case, "instance given %r is not the variation model's value at the completed location %r "
                                       "(first differing number #%s: %r, expected %r)" % (given, full, k, obs[k] if k is not None else None,
                                                                                          want[k] if k is not None else None))


def info_section(ctx):
    """font INFO of generated instances: at a master's location the master's numeric info (vertical metrics, italic angle,
    underline, OS/2 classes), half way between two masters the blend; with geometry rounding on and off; on a weight axis and on
    a slant axis (where an italic angle the masters do NOT set is taken from the axis value -- and one they DO set, 0 included,
    is theirs)"""
    from ufo2ft.instantiator import Instantiator
    from fontTools.designspaceLib import InstanceDescriptor
    rng = ctx.subrng("instance-info")
    tri = [[(Fr(0), Fr(0), "line"), (Fr(100), Fr(0), "line"), (Fr(50), Fr(100), "line")]]
    ATTRS = ["ascender", "descender", "xHeight", "capHeight", "italicAngle", "postscriptUnderlinePosition", "openTypeOS2TypoAscender", "openTypeOS2WeightClass"]
    for i in range(ctx.budget(12, 36)):
        lib = ["ufoLib2", "defcon"][i % 2]
        axis = [("Weight", "wght", 100, 100, 900), ("Slant", "slnt", -12, 0, 0)][(i // 2) % 2]
        angles = [(0, 0), (0, -12), (None, None)][(i // 4) % 3]          # the masters' italic angles (None: not set)
        rnd = (i // 12) % 2 == 1
        locs = [axis[3], axis[4] if axis[1] == "wght" else axis[2]]
        def master(k):
            info = {"familyName": "Fam", "styleName": "M%d" % k, "unitsPerEm": 1000, "ascender": 800 + 20 * k, "descender": -200 - 40 * k,
                    "xHeight": 500 + 10 * k, "capHeight": 700, "postscriptUnderlinePosition": -100 + 30 * k, "openTypeOS2TypoAscender": 900 - 100 * k}
            if angles[k] is not None:
                info["italicAngle"] = angles[k]
            if i % 3 == 0:
                info["openTypeOS2WeightClass"] = 300 + 400 * k
            return {"glyphs": [{"name": "a", "unicodes": [0x61], "width": Fr(500 + 100 * k), "contours": tri, "components": [], "anchors": []}],
                    "glyphOrder": ["a"], "kerning": {}, "groups": {}, "lib": {}, "features": "", "info": info, "no_info_defaults": True}
        masters = [master(0), master(1)]
        case = {"lib": lib, "axis": axis[1], "masters_info": [jsonable(m["info"]) for m in masters], "round_geometry": rnd}
        ctx.count(); ctx.klass("instance info: %s axis, italic angles %r" % (axis[1], angles)); ctx.nontriv(("iinfo", i, ctx.scale))
        try:
            ds, fonts = dsgen.make_designspace(rng, masters, lib, axes=[axis], locations=[{axis[0]: l} for l in locs], instances=False)
            if i % 4 == 1:
                # a sparse LAYER source of the last master, listed BEFORE that master (a layer has no info of its own: the info
                # masters are the two fonts at their own locations, whatever the order of the sources)
                from fontTools.designspaceLib import SourceDescriptor
                layer = fonts[1].newLayer("Sparse")
                gl = layer.newGlyph("a"); gl.width = 550; fonts[1]["a"].drawPoints(gl.getPointPen())
                sd = SourceDescriptor()
                sd.font, sd.layerName, sd.name = fonts[1], "Sparse", "master.Sparse"
                sd.location = {axis[0]: float(locs[0] + (locs[1] - locs[0]) * 0.25)}
                sd.familyName, sd.styleName = "Fam", "Sparse"
                ds.sources.insert(1, sd)
                ctx.klass("instance info: a sparse layer source listed before its parent master")
            inst = Instantiator.from_designspace(ds, round_geometry=rnd)
            got = {}
            for t in (0, 1, Fr(1, 2)):
                d = InstanceDescriptor()
                d.familyName, d.styleName, d.location = "Fam", "I", {axis[0]: float(locs[0] + t * (locs[1] - locs[0]))}
                f = inst.generate_instance(d)
                got[t] = {a: getattr(f.info, a, None) for a in ATTRS}
        except Exception as e:
            ctx.spec_failure(case, "instance generation raised %s: %s\n%s" % (type(e).__name__, e, traceback.format_exc()[-800:]))
            continue
        for t in (0, 1, Fr(1, 2)):
            for a in ATTRS:
                v0, v1 = masters[0]["info"].get(a), masters[1]["info"].get(a)
                if v0 is None and v1 is None:
                    if a == "italicAngle" and axis[1] == "slnt":
                        want = float(locs[0] + t * (locs[1] - locs[0]))        # taken from the slant axis: the values map 1:1
                    elif a == "openTypeOS2WeightClass" and axis[1] == "wght":
                        continue                                                 # (derived from the axis value: C16's business)
                    else:
                        want = None
                else:
                    want = float(v0 + t * (v1 - v0))
                g = got[t][a]
                if (want is None) != (g is None) or (want is not None and abs(float(g) - want) > 1e-6):
                    ctx.spec_failure(dict(case, instance_at=str(t), attribute=a, instance_value=g),
                                     "instance at t=%s: info.%s is %r; the masters have %r and %r -> %r" % (t, a, g, v0, v1, want))


def explore(ctx):
    info_section(ctx)
    two_axis_section(ctx)
    glyph_masters_section(ctx)
    varmodel_section(ctx, "c19")
    from ufo2ft.instantiator import Instantiator, swap_glyph_names
    from fontTools.designspaceLib import InstanceDescriptor
    rng = ctx.subrng("inst")
    cases, meta = [], []
    for i in range(ctx.budget(30, 200)):
        lib = ["ufoLib2", "defcon"][i % 2]
        frac = i % 3 != 2            # (deterministic: fractional values x rounding x both libraries all occur in every run)
        base = dsgen.base_master(rng, int_coords=not frac)
        masters = [base, dsgen.perturb(rng, base, 1)]
        if frac:
            # fractional kerning values too (quarters: exact in binary floating point)
            for m in masters:
                m["kerning"] = {k: v + Fr(rng.randint(-3, 3), 4) for k, v in m["kerning"].items()}
        if i % 5 == 4:
            # the non-default master defines no kerning at all: it contributes zero kerning at its location
            masters[1]["kerning"] = {}
            ctx.klass("a master without any kerning")
        # always: values whose blend at t = 1/2 (and 1/4) is an exact half with an EVEN floor and with an odd one, positive and
        # negative (102.5, 103.5, -23.5 ...): rounding is half-up (otRound), not half-to-even
        tie_glyph = None
        for g0, g1 in zip(masters[0]["glyphs"], masters[1]["glyphs"]):
            if g0["contours"] and not frac:
                tie_glyph = g0["name"]
                (x0, y0, t0), (x1, y1, t1) = g0["contours"][0][0], g1["contours"][0][0]
                g0["contours"][0][0], g1["contours"][0][0] = (Fr(100), Fr(-24), t0), (Fr(105), Fr(-23), t1)
                if len(g0["contours"][0]) > 1:
                    (x0, y0, t0), (x1, y1, t1) = g0["contours"][0][1], g1["contours"][0][1]
                    g0["contours"][0][1], g1["contours"][0][1] = (Fr(101), Fr(2), t0), (Fr(106), Fr(4), t1)
                g0["width"], g1["width"] = Fr(500), Fr(505)
                break
        ds, fonts = dsgen.make_designspace(rng, masters, lib)
        names = [g["name"] for g in base["glyphs"]]
        kern_keys = sorted(set(base["kerning"]) | set(masters[1]["kerning"]))
        rnd = i % 4 < 2
        before = [snap.font_snapshot(f) for f in fonts]
        try:
            inst = Instantiator.from_designspace(ds, round_geometry=rnd)
        except Exception as e:
            ctx.spec_failure({"font": jsonable(base)}, "Instantiator.from_designspace raised %s: %s" % (type(e).__name__, e))
            continue
        m0, m1 = font_vector(fonts[0], names, kern_keys), font_vector(fonts[1], names, kern_keys)
        # one Instantiator serves the whole sequence; a master location comes first so that whatever it hands out
        # there is exercised (and possibly rounded) before the interior locations are blended
        for loc in ([900, 300, 100, 500, 700] if not ctx.quick() else [rng.choice([100, 900]), 500, rng.choice([300, 700])]):
            d = InstanceDescriptor()
            d.familyName, d.styleName, d.location = "Fam", "I%d" % loc, {"Weight": loc}
            case = {"font": jsonable(base), "master1": jsonable(masters[1]), "location": loc, "round_geometry": rnd, "lib": lib}
            try:
                f = inst.generate_instance(d)
            except Exception as e:
                ctx.spec_failure(case, "generate_instance raised %s: %s\n%s" % (type(e).__name__, e, traceback.format_exc()[-800:]))
                continue
            ctx.count()
            ctx.klass("instance:t=%s/round=%s" % (Fr(loc - 100, 800), rnd))
            if loc not in (100, 900):
                ctx.nontriv(("inst", i, loc, ctx.scale))
            if sorted(f.keys()) != sorted(names):
                ctx.spec_failure(case, "instance glyph set %r is not the default source's %r" % (sorted(f.keys()), sorted(names)))
                continue
            obs = font_vector(f, names, kern_keys)
            if len(obs) != len(m0):
                ctx.spec_failure(case, "instance has a different point structure than the masters")
                continue
            cases.append(G.tup(g_vec(m0), g_vec(m1), geom.g_q(Fr(loc - 100, 800)), G.b(rnd), g_vec(obs), G.nat(len(kern_keys))))
            meta.append(case)
            # unicodes and lib
            for n in names:
                if list(f[n].unicodes) != list(fonts[0][n].unicodes):
                    ctx.spec_failure(case, "instance glyph %r has code points %r, default source %r" % (n, f[n].unicodes, fonts[0][n].unicodes))
        if tie_glyph is not None and not rnd and len(base["glyphs"][[g["name"] for g in base["glyphs"]].index(tie_glyph)]["contours"][0]) > 1:
            # a location whose normalised coordinate, 3/10, is NOT a multiple of 1/16384 (what a variable font could store): the
            # instance sits at the location asked for, so without rounding 500 -> 505 gives 501.5, 100 -> 105 gives 101.5 and
            # 101 -> 106 gives 102.5, up to floating-point noise (1e-9; a location snapped to 2.14 is off by 6e-5 here)
            d = InstanceDescriptor()
            d.familyName, d.styleName, d.location = "Fam", "I340", {"Weight": 340}
            case = {"font": jsonable(base), "master1": jsonable(masters[1]), "location": 340, "round_geometry": rnd, "lib": lib}
            ctx.count(); ctx.klass("instance:t=3/10 (not representable in 2.14)/round=False"); ctx.nontriv(("inst340", i, ctx.scale))
            try:
                f = inst.generate_instance(d)
                pts = [(p.x, p.y) for c in f[tie_glyph] for p in c][:2]
                got = (f[tie_glyph].width, pts[0][0], pts[1][0])
                if any(abs(a_ - b_) > 1e-9 for a_, b_ in zip(got, (501.5, 101.5, 102.5))):
                    ctx.spec_failure(dict(case, glyph=tie_glyph), "at t = 3/10 glyph %r has (advance, x of point 0, x of point 1) = %r; the linear blend is "
                                                                 "(501.5, 101.5, 102.5)" % (tie_glyph, got))
            except Exception as e:
                ctx.spec_failure(case, "generate_instance raised %s: %s\n%s" % (type(e).__name__, e, traceback.format_exc()[-800:]))
        after = [snap.font_snapshot(f) for f in fonts]
        if before != after:
            ctx.spec_failure({"font": jsonable(base)}, "generating instances altered the sources: %s" % "; ".join(snap.diff(before, after)[:3]))
    # ---------------- three masters on one axis, sources listed in every order (the default source first, in the middle,
    # last), the default location at the minimum / in the middle / at the maximum, and a glyph that is EMPTY in every master
    # with a different advance in each: on one axis the variation model is the piecewise-linear interpolation through the
    # masters, so every instance is the blend of its two neighbouring masters (the same Coq statement, per segment)
    import itertools
    rng3 = ctx.subrng("three-masters")
    orders = list(itertools.permutations(range(3)))
    for i in range(ctx.budget(12, 72)):
        lib = ["ufoLib2", "defcon"][i % 2]
        base = dsgen.base_master(rng3)
        masters = [base, dsgen.perturb(rng3, base, 1), dsgen.perturb(rng3, base, 2)]
        for k, m in enumerate(masters):
            m["glyphs"] = list(m["glyphs"]) + [{"name": "space", "unicodes": [0x20], "width": Fr([200, 300, 460][k]), "contours": [],
                                                "components": [], "anchors": []}]
            m["glyphOrder"] = list(base["glyphOrder"]) + ["space"] if k else m.get("glyphOrder")
        base["glyphOrder"] = [g["name"] for g in base["glyphs"]]
        if i % 4 == 2:
            # one non-default master (the middle or the last one) without any kerning: zero kerning there
            masters[1 + (i // 4) % 2]["kerning"] = {}
        locs = [100, 500, 900]
        order = orders[i % 6]
        dflt = (i // 6) % 3
        ds, fonts_perm = dsgen.make_designspace(rng3, [masters[k] for k in order], lib, axes=[("Weight", "wght", 100, locs[dflt], 900)],
                                                locations=[{"Weight": locs[k]} for k in order], instances=False)
        fonts = [None] * 3
        for pos, k in enumerate(order):
            fonts[k] = fonts_perm[pos]
        names = [g["name"] for g in base["glyphs"]]
        kern_keys = sorted(set().union(*[set(m["kerning"]) for m in masters]))
        rnd = i % 4 == 3
        vecs = [font_vector(f, names, kern_keys) for f in fonts]
        before = [snap.font_snapshot(f) for f in fonts]
        info = {"source_order_by_location": [locs[k] for k in order], "default_location": locs[dflt]}
        try:
            inst = Instantiator.from_designspace(ds, round_geometry=rnd)
        except Exception as e:
            ctx.spec_failure(dict(info, font=jsonable(base)), "Instantiator.from_designspace raised %s: %s" % (type(e).__name__, e))
            continue
        for loc in [locs[order[0]], 300, 100, 700, 500, 900]:
            d = InstanceDescriptor()
            d.familyName, d.styleName, d.location = "Fam", "I%d" % loc, {"Weight": loc}
            case = dict(info, font=jsonable(base), masters=[jsonable(m) for m in masters[1:]], location=loc, round_geometry=rnd, lib=lib)
            try:
                f = inst.generate_instance(d)
            except Exception as e:
                ctx.spec_failure(case, "generate_instance raised %s: %s\n%s" % (type(e).__name__, e, traceback.format_exc()[-800:]))
                continue
            ctx.count()
            ctx.klass("three masters: default %s, listed %s" % (["at minimum", "in the middle", "at maximum"][dflt],
                                                                ["first", "second", "last"][order.index(dflt)]))
            ctx.nontriv(("inst3", i, loc, ctx.scale))
            if sorted(f.keys()) != sorted(names):
                ctx.spec_failure(case, "instance glyph set %r is not the default source's %r" % (sorted(f.keys()), sorted(names)))
                continue
            obs = font_vector(f, names, kern_keys)
            seg = 0 if loc <= 500 else 1
            if len(obs) != len(vecs[0]):
                ctx.spec_failure(case, "instance has a different point structure than the masters")
                continue
            cases.append(G.tup(g_vec(vecs[seg]), g_vec(vecs[seg + 1]), geom.g_q(Fr(loc - locs[seg], 400)), G.b(rnd), g_vec(obs), G.nat(len(kern_keys))))
            meta.append(case)
        if before != [snap.font_snapshot(f) for f in fonts]:
            ctx.spec_failure(dict(info, font=jsonable(base)), "generating instances altered the sources")
    vals = ctx.coq_eval(IMPORTS, FN_BLEND, cases, chunk=40, tag="Blend")
    for v, case in zip(vals, meta):
        if v is not None and v != 3:
            ctx.spec_failure(case, "instance values are not the master (at a master location) / the exact linear blend of the two masters")
    if meta:
        ctx.sample({"location": meta[0]["location"], "round_geometry": meta[0]["round_geometry"], "glyph": meta[0]["font"]["glyphs"][0]})

    # ---------------- swap_glyph_names
    rng = ctx.subrng("swap")
    cases, meta = [], []
    for i in range(ctx.budget(80, 600)):
        n = rng.randint(2, 6)
        names = ["g%d" % k for k in range(n)]
        glyphs = []
        for k, nm in enumerate(names):
            glyphs.append({"name": nm, "width": rng.randint(0, 900), "unicodes": [0x41 + k] if rng.random() < 0.7 else [],
                           "contours": [[(Fr(k), Fr(0), "line"), (Fr(100 + k), Fr(0), "line"), (Fr(50), Fr(100 + k), "line")]] if rng.random() < 0.7 else [],
                           "components": [(rng.choice(names[:k]), (1, 0, 0, 1, rng.randint(0, 9), 0)) for _ in range(rng.randint(0, 2))] if k else [],
                           "anchors": [("top", Fr(10 * k), Fr(700))] if rng.random() < 0.5 else []})
        desc = {"glyphs": glyphs, "kerning": {(rng.choice(names), rng.choice(names)): Fr(rng.randint(-50, 50)) for _ in range(rng.randint(0, 4))},
                "groups": {"public.kern1.A": rng.sample(names, rng.randint(1, n)), "other": rng.sample(names, rng.randint(0, n))}}
        a, b = rng.sample(names + ["ghost"], 2) if rng.random() < 0.1 else rng.sample(names, 2)
        # instance fonts are created with importUfoModule() (ufoLib2 when installed); defcon's change
        # notifications recurse without bound on the transient self-reference while two glyphs that
        # reference each other are swapped -- a defcon limitation outside the instantiator's own path
        lib = "ufoLib2"
        font = build_font(desc, lib)

        def abstract(f):
            gl = []
            for nm in names:
                g = f[nm]
                cs, comps = geom.glyph_points(g)
                outline = int(cs[0][0][0]) + 1 if cs else 0          # the generated outlines are identified by their first x
                gl.append("(%s, mkSG %s %s %s %s %s)" % (G.s(nm), G.z(outline), G.z(int(g.width)),
                          G.lst([G.tup(G.s(x.name), G.z(int(x.x))) for x in g.anchors], "(str * Z)"),
                          G.lst([G.s(c[0]) for c in comps], "str"), G.lst([G.z(u) for u in g.unicodes], "Z")))
            kern = G.lst([G.tup(G.tup(G.s(k[0]), G.s(k[1])), G.z(int(v))) for k, v in f.kerning.items()], "((str * str) * Z)")
            grp = G.lst([G.tup(G.s(k), G.lst([G.s(m) for m in v], "str")) for k, v in f.groups.items()], "(str * list str)")
            return "(mkSF %s %s %s)" % (G.lst(gl, "(str * sglyph)"), kern, grp)
        f0 = abstract(font)
        try:
            swap_glyph_names(font, a, b)
            obs = "(Some %s)" % abstract(font)
        except Exception as e:
            obs = "(@None sfont)"
        cases.append(G.tup(G.s(a), G.s(b), f0, obs))
        meta.append({"font": jsonable(desc), "swap": [a, b], "lib": lib})
        ctx.count(); ctx.klass("swap")
        if any(g["components"] for g in glyphs) and desc["kerning"]:
            ctx.nontriv(("swap", i, ctx.scale))
    vals = ctx.coq_eval(IMPORTS, FN_SWAP, cases, chunk=80, tag="Swap")
    for v, case in zip(vals, meta):
        if v is None:
            continue
        if not v & 2:
            ctx.spec_failure(case, "swapping the two glyphs twice does not restore the font")
        elif not v & 1:
            ctx.corr_mismatch(case, "Gallina swap_glyph_names differs from instantiator.swap_glyph_names")
    fixture_rules(ctx)
    generated_rules(ctx)


def active_subs(rules, location, glyph_names):
    """the substitutions in force at a location, stated independently: rules in document order, a rule applies when one of
    its condition sets holds (every condition: minimum <= value <= maximum), each of its subs whose first glyph exists
    is applied, in order -- a sub listed by two active rules is applied twice"""
    out = []
    for r in rules:
        ok = False
        for cs in r.conditionSets:
            if all((c.get("minimum") is None or location[c["name"]] >= c["minimum"]) and
                   (c.get("maximum") is None or location[c["name"]] <= c["maximum"]) for c in cs):
                ok = True
        if ok:
            out += [(a, b) for a, b in r.subs if a in glyph_names]
    return out


def generated_rules(ctx):
    """designspace rules generated at random (overlapping ranges, the same sub in several rules, chains, a sub naming a
    glyph that does not exist): the instance must equal the rule-free instance with the active swaps applied in order"""
    from ufo2ft.instantiator import Instantiator, swap_glyph_names
    from fontTools.designspaceLib import InstanceDescriptor, RuleDescriptor
    rng = ctx.subrng("rules")
    for i in range(ctx.budget(10, 60)):
        lib = "ufoLib2"        # (defcon recurses on mutually referencing swaps: observation O6)
        base = dsgen.base_master(rng, max_depth=1)
        names = [g["name"] for g in base["glyphs"]]
        # groups of both kinds name the glyphs the rules swap: kerning groups AND plain ones (their references are swapped too)
        base["groups"] = dict(base.get("groups", {}), **{"public.kern1.first": [names[0], names[2]], "public.kern2.second": [names[1]],
                                                         "uppercase": [names[0], names[1], names[3 % len(names)]], "alternates": [names[2]]})
        masters = [base, dsgen.perturb(rng, base, 1)]
        pairs = [(names[0], names[1]), (names[1], names[2]), (names[2], names[0]), ("ghost", names[0])]

        def with_rules(add):
            ds, fonts = dsgen.make_designspace(random.Random(i), masters, lib)
            if add:
                rr = random.Random(1000 + i + 7919 * ctx.scale)
                for k in range(rr.randint(1, 3)):
                    r = RuleDescriptor()
                    r.name = "rule%d" % k
                    lo = rr.choice([100, 300, 500, 700])
                    r.conditionSets = [[{"name": "Weight", "minimum": lo, "maximum": rr.choice([lo + 200, 900, 900])}]]
                    r.subs = [pairs[0]] if k < 2 and rr.random() < 0.7 else rr.sample(pairs, rr.randint(1, 2))
                    ds.addRule(r)
            return ds, fonts
        import random
        ds_r, _ = with_rules(True)
        ds_p, _ = with_rules(False)
        try:
            inst_r = Instantiator.from_designspace(ds_r, round_geometry=True)
            inst_p = Instantiator.from_designspace(ds_p, round_geometry=True)
        except Exception as e:
            ctx.spec_failure({"font": jsonable(base)}, "Instantiator.from_designspace raised %s: %s" % (type(e).__name__, e))
            continue
        for loc in (100, 400, 600, 800, 900):
            d = InstanceDescriptor()
            d.familyName, d.styleName, d.location = "Fam", "I%d" % loc, {"Weight": loc}
            subs = active_subs(ds_r.rules, {"Weight": loc}, set(names))
            case = {"font": jsonable(base), "master1": jsonable(masters[1]), "location": loc,
                    "rules": [[r.name, r.conditionSets, [list(x) for x in r.subs]] for r in ds_r.rules], "active_subs_in_order": [list(x) for x in subs]}
            ctx.count(); ctx.klass("generated rules: %d active subs" % min(len(subs), 3))
            if subs:
                ctx.nontriv(("rules", i, loc, ctx.scale))
            try:
                f = inst_r.generate_instance(d)
                ref = inst_p.generate_instance(d)
                for a, b in subs:
                    if a != b:
                        swap_glyph_names(ref, a, b)
            except Exception as e:
                ctx.spec_failure(case, "generate_instance / swap raised %s: %s" % (type(e).__name__, e))
                continue
            sf, sr = snap.font_snapshot(f), snap.font_snapshot(ref)
            if sf != sr:
                ctx.spec_failure(case, "instance with rules differs from the rule-free instance with the active substitutions applied in order: %s" % (
                    "; ".join(snap.diff(sr, sf)[:4])))


def fixture_rules(ctx):
    """MutatorSans: rule substitutions at a location; instance at a master = master after the active swaps"""
    from ufo2ft.instantiator import Instantiator, process_rules_swaps, swap_glyph_names
    from fontTools.designspaceLib import DesignSpaceDocument, InstanceDescriptor
    import ufoLib2
    path = os.path.join(os.environ.get("UFO2FT_REPO", "/repo"), "tests", "data", "MutatorSans", "MutatorSans.designspace")
    if not os.path.exists(path):
        return
    ds = DesignSpaceDocument.fromfile(path)
    ds.loadSourceFonts(ufoLib2.Font.open)
    before = [snap.font_snapshot(s.font) for s in ds.sources]
    inst = Instantiator.from_designspace(ds, round_geometry=True)
    for s in ds.sources:
        if s.layerName is not None:
            continue
        d = InstanceDescriptor()
        d.familyName, d.styleName, d.location = "MutatorMathTest", "x", dict(s.location)
        f = inst.generate_instance(d)
        ctx.count(); ctx.klass("fixture:MutatorSans master location"); ctx.nontriv(("ms", repr(sorted(s.location.items()))))
        ref = copy.deepcopy(s.font)
        loc = {**inst.default_design_location, **s.location}
        for old, new in process_rules_swaps(ds.rules, loc, list(ref.keys())):
            if old != new:
                swap_glyph_names(ref, old, new)
        case = {"fixture": "MutatorSans", "location": dict(s.location)}
        for n in inst.glyph_names:
            if n not in ref:
                continue
            a = geom.glyph_points(f[n])
            b = geom.glyph_points(ref[n])
            ra = ([[(geom.ot_round(x), geom.ot_round(y), t) for x, y, t in c] for c in a[0]], [(bn, tuple(t[:4]) + (geom.ot_round(t[4]), geom.ot_round(t[5]))) for bn, t in a[1]])
            rb = ([[(geom.ot_round(x), geom.ot_round(y), t) for x, y, t in c] for c in b[0]], [(bn, tuple(t[:4]) + (geom.ot_round(t[4]), geom.ot_round(t[5]))) for bn, t in b[1]])
            if ra != rb or geom.ot_round(f[n].width) != geom.ot_round(ref[n].width):
                ctx.spec_failure(dict(case, glyph=n), "instance at a master location differs from that master (after the rule swaps active there) in glyph %r" % n)
                break
        for k, v in ref.kerning.items():
            if geom.ot_round(f.kerning.get(k, 0)) != geom.ot_round(v):
                ctx.spec_failure(case, "kerning %r at a master location is %r, master has %r" % (k, f.kerning.get(k), v))
                break
    after = [snap.font_snapshot(s.font) for s in ds.sources]
    if before != after:
        ctx.spec_failure({"fixture": "MutatorSans"}, "generating instances altered the sources")
