"""C02 -- TrueType outlines render the source shape; composites stay valid."""
import io, math, traceback
from fractions import Fraction as Fr
from harness import gterm as G, geom
from harness.fonts import build_font, gen_component_font, jsonable

PID = "C02"
LEVEL_TEXT = ("Proof + correspondence: Coq theorems that TrueType pre-processing leaves no glyph with both contours and components "
              "(tt_no_mixed, all glyph sets), that a decomposed mixed glyph holds exactly the nested resolved outline, that "
              "flattening composes matrices by plain composition and the flattened glyph resolves to exactly the same contour list "
              "(flatten_render: all glyph sets, any depth), that the whole pre-processing pipeline with plain reversal leaves every "
              "glyph rendering exactly the source's contours, each reversed (tt_pre_renders_reversed), that direction reversal is an involution and that glyf points "
              "are the otRound-ed source points with the same flags and count. The model tt_pre/tt_of_glyph is compared exactly "
              "with TTFPreProcessor's glyph set and with the glyf table of compiled, reloaded fonts for cubic-free sources "
              "(flatten on/off, convertCubics on/off, both UFO libraries), and the resolve-based spec is evaluated in Coq on the "
              "implementation's output. maxp counts/depth are recomputed from the reloaded glyf data. PARTIAL for cubic "
              "sources: the cu2qu spline search is environment; the distance between source cubic and emitted spline is "
              "sampled against cubicConversionError*upem (+ rounding slack) -- a test, not a proof."
              " The list of default filters of the TrueType pre-processor is translated from /repo's current TTFPreProcessor.initDefaultFilters into Gallina on every run (Generated/Pipelines.v, fail-closed) and proved, for all option values: the direction is reversed exactly when reverseDirection is on and at most once, the converter gets the caller's allQuadratic / reverseDirection and remembers the curve type only inplace, only mixed glyphs are decomposed, flattening / overlap removal run exactly when asked; compared with the real pre-processor objects over all 1024 option combinations.")
LEVEL_NOTE = ("Trusted: Coq kernel; hand model of fontTools pens/TTGlyphPointPen (correspondence-tested); exact rationals on dyadic "
              "inputs; cu2qu, glyf compile, maxp.recalc are environment. Component matrices outside F2Dot14 are excluded.")
TECHNIQUE = "Coq proofs (no mixed glyph, decomposition = resolution, flatten algebra) + vm_compute correspondence on glyph sets and glyf tables; sampled distance test for cubics"
IMPORTS = "From U2F Require Import Base.Prelude Geometry.Model Geometry.Cff Geometry.Filters Geometry.TT."
RULE = ("cubic-free random component DAGs (lines + quadratics with 1-3 off-curves, contours starting on or off curve, mixed glyphs, "
        "composites of composites, diamond DAGs, F2Dot14-representable matrices incl. mirrors/shear/rotation) x flattenComponents x "
        "convertCubics x both UFO libraries: exact comparison of pre-processed glyph sets and glyf tables; plus cubic fonts for "
        "the sampled distance test. Non-trivial = font has a mixed glyph or a nested/mirrored component."
        " The cu2qu.curve_type lib key; the conversion error measured on the unrounded pre-processor output for errors below one unit and upm 250..2048 (sampled test).")
ASSUMPTIONS = ["IEEE doubles exact on dyadic inputs", "cu2qu passes lines and quadratic segments through unchanged"]

TT_CLASSES = ["identity", "shear", "rot90", "mirror_x", "mirror_y", "point_reflect", "shrink_mirror", "general_small",
              "mirror_scale"]


def overflowing(desc, flatten):
    """pure composites whose (flattened) component matrices leave the F2Dot14 range [-2, 2): fontTools
    decomposes those instead (environment behaviour, excluded)"""
    by = {g["name"]: g for g in desc["glyphs"]}

    def comp(a, t):
        return (t[0] * a[0] + t[1] * a[2], t[0] * a[1] + t[1] * a[3], t[2] * a[0] + t[3] * a[2], t[2] * a[1] + t[3] * a[3],
                a[0] * t[4] + a[2] * t[5] + a[4], a[1] * t[4] + a[3] * t[5] + a[5])

    def flat(b, t):
        g = by[b]
        if not g["components"] or g["contours"]:
            return [t]
        out = []
        for b2, t2 in g["components"]:
            out.extend(flat(b2, comp(t, t2)))
        return out
    bad = set()
    for g in desc["glyphs"]:
        if g["components"] and not g["contours"]:
            ms = []
            for b, t in g["components"]:
                ms.extend(flat(b, t) if flatten else [t])
            if any(abs(v) >= 2 for m in ms for v in m[:4]):
                bad.add(g["name"])
    return bad

FN_PRE = ("fun c : (bool * bool * glyphset * glyphset) => let '(fl, cv, gs, gs') := c in c02_pre_check fl cv gs gs'")
FN_GLYF = ("fun c : (bool * bool * glyphset * list (str * tt_glyph)) => let '(fl, cv, gs, obs) := c in c02_check fl cv gs obs")


def g_tt(name, g):
    cs = G.lst([G.lst([G.tup(G.tup(G.z(x), G.z(y)), G.b(on)) for x, y, on in c], "(Z * Z * bool)") for c in g["contours"]],
               "(list (Z * Z * bool))")
    comps = G.lst([G.tup(G.tup(G.s(b), G.tup(G.z(x), G.z(y))),
                         G.tup(G.tup(G.tup(geom.g_q(m[0]), geom.g_q(m[1])), geom.g_q(m[2])), geom.g_q(m[3])))
                   for b, x, y, m in g["components"]], "(str * (Z * Z) * (Qc * Qc * Qc * Qc))")
    return G.tup(G.s(name), "(mkTT %s %s)" % (cs, comps))


def read_glyf(tt, name):
    g = tt["glyf"][name]
    out = {"contours": [], "components": []}
    if g.isComposite():
        for c in g.components:
            m = getattr(c, "transform", [[1, 0], [0, 1]])
            out["components"].append((c.glyphName, c.x, c.y,
                                      (Fr(m[0][0]), Fr(m[0][1]), Fr(m[1][0]), Fr(m[1][1]))))
    elif g.numberOfContours > 0:
        start = 0
        for end in g.endPtsOfContours:
            out["contours"].append([(int(g.coordinates[i][0]), int(g.coordinates[i][1]), bool(g.flags[i] & 1))
                                    for i in range(start, end + 1)])
            start = end + 1
    return out


def check_maxp(ctx, case, tt):
    glyf, maxp = tt["glyf"], tt["maxp"]

    def depth(n, seen=()):
        g = glyf[n]
        if not g.isComposite():
            return 0
        return 1 + max(depth(c.glyphName, seen + (n,)) for c in g.components)

    def totals(n):
        g = glyf[n]
        if not g.isComposite():
            return (len(g.coordinates) if g.numberOfContours > 0 else 0, max(g.numberOfContours, 0))
        p = c = 0
        for comp in g.components:
            a, b = totals(comp.glyphName)
            p, c = p + a, c + b
        return p, c
    names = tt.getGlyphOrder()
    for n in names:
        g = glyf[n]
        if g.isComposite():
            for c in g.components:
                if c.glyphName not in names:
                    ctx.spec_failure(case, "composite %r references %r which is not in the font" % (n, c.glyphName))
                    return
    want = {
        "numGlyphs": len(names),
        "maxComponentDepth": max([depth(n) for n in names] + [0]),
        "maxComponentElements": max([len(glyf[n].components) for n in names if glyf[n].isComposite()] + [0]),
        "maxPoints": max([len(glyf[n].coordinates) for n in names if glyf[n].numberOfContours > 0] + [0]),
        "maxContours": max([glyf[n].numberOfContours for n in names if glyf[n].numberOfContours > 0] + [0]),
        "maxCompositePoints": max([totals(n)[0] for n in names if glyf[n].isComposite()] + [0]),
        "maxCompositeContours": max([totals(n)[1] for n in names if glyf[n].isComposite()] + [0]),
    }
    for k, v in want.items():
        if getattr(maxp, k) != v:
            ctx.spec_failure(case, "maxp.%s = %r but the glyf data implies %r" % (k, getattr(maxp, k), v))


# ---- cubic sources: sampled distance test
def cubic_pt(p0, p1, p2, p3, t):
    mt = 1 - t
    return tuple(mt ** 3 * a + 3 * mt * mt * t * b + 3 * mt * t * t * c + t ** 3 * d for a, b, c, d in zip(p0, p1, p2, p3))


def quad_pt(p0, p1, p2, t):
    mt = 1 - t
    return tuple(mt * mt * a + 2 * mt * t * b + t * t * c for a, b, c in zip(p0, p1, p2))


def dist_to_polyline(p, poly):
    best = 1e18
    for (x1, y1), (x2, y2) in zip(poly, poly[1:]):
        vx, vy = x2 - x1, y2 - y1
        L = vx * vx + vy * vy
        t = 0 if L == 0 else max(0, min(1, ((p[0] - x1) * vx + (p[1] - y1) * vy) / L))
        d = math.hypot(p[0] - (x1 + t * vx), p[1] - (y1 + t * vy))
        best = min(best, d)
    return best


def flatten_tt(tt, name, steps=24):
    polys = []
    for kind, start, segs, _ in geom.recorded_to_segments(geom.drawn_segments(tt.getGlyphSet()[name])):
        cur = tuple(map(float, start))
        poly = [cur]
        for sg in segs:
            if sg[0] == "line":
                cur = tuple(map(float, sg[1])); poly.append(cur)
            elif sg[0] == "qcurve":
                offs = [tuple(map(float, p)) for p in sg[1]]
                end = tuple(map(float, sg[2]))
                pts = []
                for i in range(len(offs) - 1):
                    pts.append((offs[i], ((offs[i][0] + offs[i + 1][0]) / 2, (offs[i][1] + offs[i + 1][1]) / 2)))
                if offs:
                    pts.append((offs[-1], end))
                else:
                    poly.append(end)
                for q, e in pts:
                    for k in range(1, steps + 1):
                        poly.append(quad_pt(cur, q, e, k / steps))
                    cur = e
                cur = end
            else:
                return None  # cubic left in glyf
        polys.append(poly)
    return polys


def polys_of_segments(segs_list, steps=64):
    polys = []
    for kind, start, segs, _ in segs_list:
        cur = tuple(map(float, start))
        poly = [cur]
        for sg in segs:
            if sg[0] == "line":
                cur = tuple(map(float, sg[1])); poly.append(cur)
            elif sg[0] == "qcurve":
                offs = [tuple(map(float, p)) for p in sg[1]]
                end = tuple(map(float, sg[2]))
                pts = [(offs[k], ((offs[k][0] + offs[k + 1][0]) / 2, (offs[k][1] + offs[k + 1][1]) / 2)) for k in range(len(offs) - 1)]
                if offs:
                    pts.append((offs[-1], end))
                else:
                    poly.append(end)
                for q, e in pts:
                    for k in range(1, steps + 1):
                        poly.append(quad_pt(cur, q, e, k / steps))
                    cur = e
                cur = end
            else:
                return None
        polys.append(poly)
    return polys


def unrounded_distance_test(ctx, rng):
    """the conversion error as configured, measured on the pre-processor's UNROUNDED quadratic outlines (no rounding
    slack): small errors (below one unit), small and large unitsPerEm, large ovals"""
    from ufo2ft.preProcessor import TTFPreProcessor
    import math
    for i in range(ctx.budget(10, 60)):
        upm = [1000, 1000, 500, 2048, 250][i % 5]
        err = [0.0002, 0.0001, 0.0004, None, 0.001][i % 5]
        r = rng.randint(int(upm * 0.2), int(upm * 0.35))
        cx, cy = rng.randint(0, 300), rng.randint(0, 300)
        k = 0.5523 * r * rng.choice([1.0, 0.9, 1.1])
        oval = [(cx + r, cy, "curve"), (cx + r, cy + k, "off"), (cx + k, cy + r, "off"), (cx, cy + r, "curve"),
                (cx - k, cy + r, "off"), (cx - r, cy + k, "off"), (cx - r, cy, "curve"), (cx - r, cy - k, "off"),
                (cx - k, cy - r, "off"), (cx, cy - r, "curve"), (cx + k, cy - r, "off"), (cx + r, cy - k, "off")]
        # point order for a closed contour: off-curves precede the on-curve they lead to
        contour = [oval[-2], oval[-1]] + oval[:-2]
        contour = [(Fr(round(x)), Fr(round(y)), t) for x, y, t in contour]
        desc = {"glyphs": [{"name": "o", "unicodes": [0x6F], "width": Fr(upm), "contours": [contour], "components": [], "anchors": []}],
                "info": {"unitsPerEm": upm}}
        kw = {} if err is None else {"conversionError": err}
        tol = (err or 0.001) * upm
        case = {"font": jsonable(desc), "options": jsonable(kw), "unitsPerEm": upm, "level": "TTFPreProcessor (unrounded) distance test"}
        try:
            gset = TTFPreProcessor(build_font(desc), **kw).process()
        except Exception as e:
            ctx.spec_failure(case, "TTFPreProcessor raised %s: %s" % (type(e).__name__, e))
            continue
        ctx.count(); ctx.klass("unrounded-distance-test upm=%d err=%s" % (upm, err)); ctx.nontriv(("udist", i, ctx.scale))
        cs, _ = geom.glyph_points(gset["o"])
        polys = polys_of_segments([geom.to_segments(c) for c in cs])
        if polys is None:
            ctx.spec_failure(case, "cubic segment left after cubic-to-quadratic conversion")
            continue
        worst = 0.0
        s = geom.to_segments(contour)
        cur = tuple(map(float, s[1]))
        for sg in s[2]:
            if sg[0] == "curve":
                c1, c2 = [tuple(map(float, p)) for p in sg[1]]
                end = tuple(map(float, sg[2]))
                for kk in range(0, 41):
                    p = cubic_pt(cur, c1, c2, end, kk / 40)
                    worst = max(worst, min(dist_to_polyline(p, poly) for poly in polys))
            cur = tuple(map(float, sg[-1]))
        if worst > tol + 0.02:
            ctx.spec_failure(dict(case, distance=worst, allowed=tol), "unrounded quadratic spline is %.4f units from the source cubic, configured "
                             "conversion error %s x unitsPerEm %d = %.4f" % (worst, err or 0.001, upm, tol))


def skip_flatten_test(ctx, rng):
    """flattenComponents together with non-exported glyphs: flattening must look at the glyph set being compiled (where the
    skipped glyph has been folded into its users and removed); each remaining glyph renders the same with and without
    flattening"""
    import ufo2ft
    from harness.props.c13 import flat_contours, same_rendering
    from fontTools.ttLib import TTFont
    for i in range(ctx.budget(10, 60)):
        desc = gen_component_font(rng, n=rng.randint(5, 9), kinds=("line",), classes=["identity", "scale", "mirror_x"], max_depth=3)
        by = {g["name"]: g for g in desc["glyphs"]}
        pure = [g["name"] for g in desc["glyphs"] if g["components"] and not g["contours"]]
        # X (skipped) <- S (pure composite using X) <- C (composite using S)
        chain = [(x, sn, c["name"]) for sn in pure for x, _ in by[sn]["components"] for c in desc["glyphs"]
                 if any(b == sn for b, _ in c["components"]) and c["name"] != x]
        if chain:
            skip = [rng.choice(chain)[0]]
        else:
            used = sorted({b for g in desc["glyphs"] for b, _ in g["components"]})
            if not used:
                continue
            skip = [rng.choice(used)]
        lib = ["ufoLib2", "defcon"][i % 2]
        via_lib = i % 3 == 0
        if via_lib:
            desc["lib"] = {"public.skipExportGlyphs": list(skip)}
        kw = {} if via_lib else {"skipExportGlyphs": list(skip)}
        case = {"font": jsonable(desc), "lib": lib, "skipExportGlyphs": skip, "given_by": "lib" if via_lib else "argument",
                "level": "flattenComponents x skipExportGlyphs"}
        ctx.count(); ctx.klass("flatten x skip" + ("/chain" if chain else "")); ctx.nontriv(("fs", i, ctx.scale))
        try:
            fonts = []
            for fl in (False, True):
                tt = ufo2ft.compileTTF(build_font(desc, lib), useProductionNames=False, flattenComponents=fl, **kw)
                b = io.BytesIO(); tt.save(b); fonts.append(TTFont(io.BytesIO(b.getvalue())))
        except Exception as e:
            ctx.spec_failure(case, "compileTTF raised %s: %s\n%s" % (type(e).__name__, e, traceback.format_exc()[-1000:]))
            continue
        plain, flat = fonts
        if plain.getGlyphOrder() != flat.getGlyphOrder() or skip[0] in flat.getGlyphOrder():
            ctx.spec_failure(case, "glyph order with flattening %r, without %r" % (flat.getGlyphOrder(), plain.getGlyphOrder()))
            continue
        for n in plain.getGlyphOrder():
            g = flat["glyf"][n]
            if g.isComposite() and any(c.glyphName not in flat.getGlyphOrder() or flat["glyf"][c.glyphName].isComposite() for c in g.components):
                ctx.spec_failure(dict(case, glyph=n), "flattened composite %r still has a nested or dangling reference" % n)
                break
            # (tolerance: a chain of up to three components scaled by 3/2 multiplies the half-unit rounding of the innermost
            # outline by 27/8 and that of the offsets on the way by 9/4 and 3/2 -- the two builds round at different levels)
            if not same_rendering(flat_contours(plain, n), flat_contours(flat, n), tol=4.5):
                ctx.spec_failure(dict(case, glyph=n), "glyph %r renders differently with flattenComponents when %r is not exported" % (n, skip[0]))
                break


def nested_skip_section(ctx):
    """non-exported glyphs nested TWO deep: I -> _pillar -> _stem with both _pillar and _stem not exported (by lib / argument),
    a mixed glyph using _pillar, a composite of composites above; default options, flattenComponents, convertCubics=False.
    Every exported glyph renders what it renders when nothing is skipped, and no reference dangles"""
    import ufo2ft
    from harness.props.c13 import flat_contours, same_rendering
    from fontTools.ttLib import TTFont
    sq = lambda x, y, w, h: [[(Fr(x), Fr(y), "line"), (Fr(x + w), Fr(y), "line"), (Fr(x + w), Fr(y + h), "line"), (Fr(x), Fr(y + h), "line")]]
    one = (Fr(1), Fr(0), Fr(0), Fr(1))
    for i in range(ctx.budget(6, 12)):
        lib = ["ufoLib2", "defcon"][i % 2]
        kw = [{}, {"flattenComponents": True}, {"convertCubics": False}][(i // 2) % 3]
        skip = [["_pillar", "_stem"], ["_stem", "_pillar"]][i % 2]
        desc = {"glyphs": [
            {"name": "_stem", "unicodes": [], "width": Fr(100), "contours": sq(0, 0, 80, 700), "components": [], "anchors": []},
            {"name": "_pillar", "unicodes": [], "width": Fr(200), "contours": [], "anchors": [],
             "components": [("_stem", one + (Fr(10), Fr(0))), ("_stem", one + (Fr(110), Fr(5)))]},
            {"name": "I", "unicodes": [0x49], "width": Fr(300), "contours": [], "anchors": [], "components": [("_pillar", one + (Fr(40), Fr(0)))]},
            {"name": "H", "unicodes": [0x48], "width": Fr(700), "contours": [], "anchors": [],
             "components": [("I", one + (Fr(0), Fr(0))), ("I", one + (Fr(350), Fr(0)))]},
            {"name": "J", "unicodes": [0x4A], "width": Fr(400), "contours": sq(0, -100, 200, 60), "anchors": [],
             "components": [("_pillar", (Fr(1, 2), Fr(0), Fr(0), Fr(1), Fr(150), Fr(0)))]}],
            "glyphOrder": ["_stem", "_pillar", "I", "H", "J"], "lib": {}}
        via_lib = (i // 6) % 2 == 0
        if via_lib:
            desc["lib"]["public.skipExportGlyphs"] = list(skip)
        kw2 = dict(kw) if via_lib else dict(kw, skipExportGlyphs=list(skip))
        case = {"font": jsonable(desc), "lib": lib, "skipExportGlyphs": skip, "given_by": "lib" if via_lib else "argument", "options": jsonable(kw),
                "level": "non-exported glyphs nested two deep"}
        ctx.count(); ctx.klass("nested skip: %s" % (sorted(kw) or ["default"])[0]); ctx.nontriv(("ns", i, ctx.scale))
        try:
            tt = ufo2ft.compileTTF(build_font(desc, lib), useProductionNames=False, **kw2)
            b = io.BytesIO(); tt.save(b); tt = TTFont(io.BytesIO(b.getvalue()))
            ref = ufo2ft.compileTTF(build_font(dict(desc, lib={}), lib), useProductionNames=False, **kw)
            b = io.BytesIO(); ref.save(b); ref = TTFont(io.BytesIO(b.getvalue()))
        except Exception as e:
            ctx.spec_failure(case, "compileTTF raised %s: %s\n%s" % (type(e).__name__, e, traceback.format_exc()[-1000:]))
            continue
        if [n for n in tt.getGlyphOrder() if n != ".notdef"] != ["I", "H", "J"]:
            ctx.spec_failure(dict(case, glyph_order=tt.getGlyphOrder()), "glyph order with the two non-exported glyphs: %r" % tt.getGlyphOrder())
            continue
        for n in ("I", "H", "J"):
            g = tt["glyf"][n]
            if g.isComposite() and any(c.glyphName not in tt.getGlyphOrder() for c in g.components):
                ctx.spec_failure(dict(case, glyph=n), "%r refers to a glyph that is not in the font" % n)
                break
            if not same_rendering(flat_contours(ref, n), flat_contours(tt, n), tol=1.5):
                ctx.spec_failure(dict(case, glyph=n, contours=len(flat_contours(tt, n)), expected_contours=len(flat_contours(ref, n))),
                                 "%r renders differently (%d contours, %d when nothing is skipped)" % (n, len(flat_contours(tt, n)), len(flat_contours(ref, n))))
                break


def interp_mixed_cubic_section(ctx):
    """the conversion error on the INTERPOLATABLE TrueType path: a glyph with a contour of its own plus a component that SCALES a
    cubic base (15/8, 3/2, mirrored) is decomposed before the curves are converted, so the quadratic splines of the decomposed
    outline stay within the conversion error (1/1000 em) of the source cubic as placed by the component -- the error is not
    multiplied by the component's scale.  Masters keep float coordinates: no rounding slack"""
    import ufo2ft
    from fontTools.ttLib import TTFont
    for i in range(ctx.budget(4, 12)):
        lib = ["ufoLib2", "defcon"][i % 2]
        sc = [Fr(15, 8), Fr(3, 2), Fr(-15, 8), Fr(7, 4)][(i // 2) % 4]
        masters = []
        for k in range(2):
            d = 12 * k
            o = [(Fr(100), Fr(0), "curve"), (Fr(230 + d), Fr(-20), "off"), (Fr(380), Fr(120 + d), "off"), (Fr(400 + d), Fr(300), "curve"),
                 (Fr(390), Fr(470 + d), "off"), (Fr(250 + d), Fr(600), "off"), (Fr(100), Fr(560), "curve"), (Fr(60), Fr(400), "off"), (Fr(40 - d), Fr(200), "off")]
            masters.append({"glyphs": [
                {"name": "o", "unicodes": [0x6F], "width": Fr(500), "contours": [o], "components": [], "anchors": []},
                {"name": "mixed", "unicodes": [0x6D], "width": Fr(1200), "anchors": [],
                 "contours": [[(Fr(0), Fr(-100), "line"), (Fr(50 + d), Fr(-100), "line"), (Fr(25), Fr(-50), "line")]],
                 "components": [("o", (sc, Fr(0), Fr(0), abs(sc), Fr(100 if sc > 0 else 1000), Fr(10 + d)))]}],
                "glyphOrder": ["o", "mixed"], "info": {"unitsPerEm": 1000, "familyName": "F", "styleName": "M%d" % k}})
        case = {"function": "compileInterpolatableTTFs", "lib": lib, "component_scale": str(sc), "masters": [jsonable(m) for m in masters],
                "level": "conversion error of a scaled cubic in a mixed glyph"}
        ctx.count(); ctx.klass("interpolatable mixed glyph, cubic base scaled by %s" % sc); ctx.nontriv(("imc", i, ctx.scale))
        try:
            # (every other family with a CONFIGURED conversion error of 0.0002 em = 0.2 units: the master fonts keep unrounded
            # coordinates, so the configured error is what bounds the distance)
            err = 0.0002 if i % 2 == 1 else None
            outs = list(ufo2ft.compileInterpolatableTTFs([build_font(m, lib) for m in masters], useProductionNames=False,
                                                         **({"cubicConversionError": err} if err else {})))
        except Exception as e:
            ctx.spec_failure(case, "compileInterpolatableTTFs raised %s: %s\n%s" % (type(e).__name__, e, traceback.format_exc()[-1000:]))
            continue
        bound = 1000 * err * max(1.0, abs(float(sc))) if err else 1.0
        for k, tt in enumerate(outs):
            polys = flatten_tt(tt, "mixed", steps=200)
            if polys is None:
                ctx.spec_failure(dict(case, master=k), "a cubic segment was left in glyf"); break
            t = [float(v) for v in masters[k]["glyphs"][1]["components"][0][1]]
            s_ = geom.to_segments(masters[k]["glyphs"][0]["contours"][0])
            f = lambda p: (t[0] * p[0] + t[2] * p[1] + t[4], t[1] * p[0] + t[3] * p[1] + t[5])
            cur = f(tuple(map(float, s_[1])))
            worst = 0.0
            for sg in s_[2]:
                if sg[0] == "curve":
                    c1, c2 = [f(tuple(map(float, p))) for p in sg[1]]
                    end = f(tuple(map(float, sg[2])))
                    for j in range(0, 41):
                        p = cubic_pt(cur, c1, c2, end, j / 40)
                        worst = max(worst, min(dist_to_polyline(p, poly) for poly in polys))
                cur = f(tuple(map(float, sg[-1])))
            if worst > bound + 0.05:
                ctx.spec_failure(dict(case, master=k, distance=worst, cubicConversionError=err),
                                 "master %d: the quadratic spline of the decomposed glyph is %.3f units from the source cubic as placed by the component (scale %s); "
                                 "the conversion error is %.3f" % (k, worst, sc, bound))
                break


def interp_flatten_section(ctx):
    """flattenComponents through compileInterpolatableTTFs on a plain LIST of fonts (no designspace) whose sources differ in
    what they hold: a partial source (one base glyph only) listed first / last / absent, next to a full one with a chain
    G -> D -> B.  In every compiled font no reference is nested deeper than one level, maxp says so, and every glyph renders
    what the same source renders when compiled alone without flattening"""
    import ufo2ft
    from harness.props.c13 import flat_contours, same_rendering
    from fontTools.ttLib import TTFont
    sq = lambda x, y, d: [[(Fr(x), Fr(y), "line"), (Fr(x + d), Fr(y), "line"), (Fr(x + d), Fr(y + d), "line"), (Fr(x), Fr(y + d), "line")]]
    one = (Fr(1), Fr(0), Fr(0), Fr(1))
    for i in range(ctx.budget(6, 18)):
        lib = ["ufoLib2", "defcon"][i % 2]
        order = ["partial-first", "partial-last", "full-only"][(i // 2) % 3]

        def full(k):
            d = 20 * k
            return {"glyphs": [{"name": "B", "unicodes": [0x42], "width": Fr(500 + d), "contours": sq(0, 0, 100 + d), "components": [], "anchors": []},
                               {"name": "D", "unicodes": [0x44], "width": Fr(500 + d), "contours": [], "anchors": [],
                                "components": [("B", one + (Fr(15 + d), Fr(20)))]},
                               {"name": "G", "unicodes": [0x47], "width": Fr(600 + d), "contours": [], "anchors": [],
                                "components": [("D", one + (Fr(100), Fr(200 + d))), ("B", one + (Fr(300), Fr(0)))]}],
                    "glyphOrder": ["B", "D", "G"]}
        partial = {"glyphs": [{"name": "B", "unicodes": [0x42], "width": Fr(510), "contours": sq(0, 0, 110), "components": [], "anchors": []}],
                   "glyphOrder": ["B"]}
        descs = {"partial-first": [partial, full(0), full(1)], "partial-last": [full(0), full(1), partial], "full-only": [full(0), full(1)]}[order]
        case = {"function": "compileInterpolatableTTFs", "options": {"flattenComponents": True}, "lib": lib, "sources": order,
                "fonts": [jsonable(d) for d in descs]}
        ctx.count(); ctx.klass("interpolatable list + flatten: " + order); ctx.nontriv(("ifl", i, ctx.scale))
        try:
            outs = list(ufo2ft.compileInterpolatableTTFs([build_font(d, lib) for d in descs], flattenComponents=True, useProductionNames=False))
            alone = [ufo2ft.compileTTF(build_font(d, lib), useProductionNames=False) for d in descs]
        except Exception as e:
            ctx.spec_failure(case, "compile raised %s: %s\n%s" % (type(e).__name__, e, traceback.format_exc()[-1000:]))
            continue
        for k, (tt, ref) in enumerate(zip(outs, alone)):
            b = io.BytesIO(); tt.save(b); tt = TTFont(io.BytesIO(b.getvalue()))
            b = io.BytesIO(); ref.save(b); ref = TTFont(io.BytesIO(b.getvalue()))
            order_k = tt.getGlyphOrder()
            deep = [n for n in order_k if tt["glyf"][n].isComposite() and
                    any(c.glyphName not in order_k or tt["glyf"][c.glyphName].isComposite() for c in tt["glyf"][n].components)]
            if deep:
                ctx.spec_failure(dict(case, source_index=k, glyphs=deep), "flattening requested, but in font %d %r still nest components (or dangle)" % (k, deep))
                continue
            if any(tt["glyf"][n].isComposite() for n in order_k) and tt["maxp"].maxComponentDepth != 1:
                ctx.spec_failure(dict(case, source_index=k), "maxp.maxComponentDepth of font %d is %d after flattening" % (k, tt["maxp"].maxComponentDepth))
            for n in ref.getGlyphOrder():
                if n in order_k and not same_rendering(flat_contours(ref, n), flat_contours(tt, n), tol=1.5):
                    ctx.spec_failure(dict(case, source_index=k, glyph=n), "glyph %r of font %d renders differently from the same source compiled alone" % (n, k))
                    break


def variable_composite_section(ctx):
    """composites in a VARIABLE TrueType font: a glyph made of two or three components, ONE of which -- the first, the second
    or the last -- has a 2x2 that differs between the masters (one entry at a time).  Such a glyph cannot stay a composite
    (gvar has no component matrices); whatever the compiler does, the variable font instantiated at each master's location
    must render every glyph like that master compiled alone"""
    import ufo2ft
    from harness import dsgen
    from harness.props.c13 import flat_contours, same_rendering
    from fontTools.ttLib import TTFont
    from fontTools.varLib import instancer
    rng = ctx.subrng("variable-composites")
    sq = lambda x, y, d: [[(Fr(x), Fr(y), "line"), (Fr(x + d), Fr(y), "line"), (Fr(x + d), Fr(y + d), "line"), (Fr(x), Fr(y + d), "line")]]
    for i in range(ctx.budget(6, 24)):
        lib = ["ufoLib2", "defcon"][i % 2]
        which = i % 3                       # index of the component whose matrix differs
        entry = (i // 3) % 4                # xx, xy, yx, yy
        def master(k):
            d = 30 * k
            def mat(j):
                m = [Fr(1), Fr(0), Fr(0), Fr(1)]
                if j == which and k == 1:
                    m[entry] = m[entry] + Fr(1, 4)
                return tuple(m)
            comps = [("a", mat(0) + (Fr(0), Fr(0))), ("b", mat(1) + (Fr(300 + d), Fr(0))), ("a", mat(2) + (Fr(0), Fr(400)))]
            return {"glyphs": [{"name": "a", "unicodes": [0x61], "width": Fr(500 + d), "contours": sq(0, 0, 200 + d), "components": [], "anchors": []},
                               {"name": "b", "unicodes": [0x62], "width": Fr(520 + d), "contours": sq(10, 20, 150 + d), "components": [], "anchors": []},
                               {"name": "abc", "unicodes": [0x63], "width": Fr(900 + d), "contours": [], "anchors": [], "components": comps},
                               {"name": "plain", "unicodes": [0x64], "width": Fr(700), "contours": [], "anchors": [],
                                "components": [("a", (Fr(1), Fr(0), Fr(0), Fr(1), Fr(5 + d), Fr(0))), ("b", (Fr(1), Fr(0), Fr(0), Fr(1), Fr(300), Fr(d)))]}],
                    "glyphOrder": ["a", "b", "abc", "plain"], "kerning": {}, "groups": {}, "lib": {},
                    "info": {"familyName": "Fam", "styleName": "M%d" % k, "unitsPerEm": 1000, "ascender": 800, "descender": -200}}
        masters = [master(0), master(1)]
        case = {"function": "compileVariableTTF", "lib": lib, "component_with_differing_matrix": which, "matrix_entry": ["xx", "xy", "yx", "yy"][entry],
                "masters": [jsonable(m) for m in masters]}
        ctx.count(); ctx.klass("variable composite: component %d differs in %s" % (which, ["xx", "xy", "yx", "yy"][entry])); ctx.nontriv(("vc", i, ctx.scale))
        try:
            ds, fonts = dsgen.make_designspace(rng, masters, lib, instances=False)
            vf = ufo2ft.compileVariableTTF(ds, useProductionNames=False)
            b = io.BytesIO(); vf.save(b)
            alone = [ufo2ft.compileTTF(build_font(m, lib), useProductionNames=False) for m in masters]
        except Exception as e:
            ctx.spec_failure(case, "compile raised %s: %s\n%s" % (type(e).__name__, e, traceback.format_exc()[-1000:]))
            continue
        for k, wght in enumerate([100, 900]):
            inst = instancer.instantiateVariableFont(TTFont(io.BytesIO(b.getvalue())), {"wght": wght})
            b2 = io.BytesIO(); inst.save(b2); inst = TTFont(io.BytesIO(b2.getvalue()))
            b3 = io.BytesIO(); alone[k].save(b3); ref = TTFont(io.BytesIO(b3.getvalue()))
            bad = [n for n in ("a", "b", "abc", "plain") if not same_rendering(flat_contours(ref, n), flat_contours(inst, n), tol=1.5)
                   or abs(inst["hmtx"][n][0] - ref["hmtx"][n][0]) > 1]
            if bad:
                ctx.spec_failure(dict(case, master=k, glyphs=bad),
                                 "at master %d's location the variable font renders %r differently from that master compiled alone" % (k, bad))
                break


def sparse_ufo_master_section(ctx):
    """a designspace whose middle source is a separate SPARSE UFO (a font of its own, not a layer) that holds only a composite
    -- its bases are absent from it -- with component offsets that are NOT on the line between the outer masters: the composite
    keeps its references in that master (placeholders stand in for the bases), and the variable font instantiated at that
    master's location places the components where that master says"""
    import ufo2ft
    from harness import dsgen
    from fontTools.ttLib import TTFont
    from fontTools.varLib import instancer
    rng = ctx.subrng("sparse-ufo-master")
    sq = lambda x, y, d: [[(Fr(x), Fr(y), "line"), (Fr(x + d), Fr(y), "line"), (Fr(x + d), Fr(y + d), "line"), (Fr(x), Fr(y + d), "line")]]
    one = (Fr(1), Fr(0), Fr(0), Fr(1))
    for i in range(ctx.budget(4, 12)):
        lib = ["ufoLib2", "defcon"][i % 2]
        fn = ["compileVariableTTF", "compileInterpolatableTTFsFromDS"][(i // 2) % 2]
        off = [(Fr(100), Fr(550)), (Fr(300), Fr(640)), (Fr(200), Fr(600))]      # Regular, Medium (off the line), Bold
        def full(k, o):
            d = 40 * k
            return {"glyphs": [{"name": "a", "unicodes": [0x61], "width": Fr(500 + d), "contours": sq(50, 0, 300 + d), "components": [], "anchors": []},
                               {"name": "acutecomb", "unicodes": [0x301], "width": Fr(0), "contours": sq(-40, 0, 80 + d // 2), "components": [], "anchors": []},
                               {"name": "aacute", "unicodes": [0xE1], "width": Fr(500 + d), "contours": [], "anchors": [],
                                "components": [("a", one + (Fr(0), Fr(0))), ("acutecomb", one + o)]}],
                    "glyphOrder": ["a", "acutecomb", "aacute"], "kerning": {}, "groups": {}, "lib": {}, "features": "",
                    "info": {"familyName": "Fam", "styleName": "M%d" % k, "unitsPerEm": 1000, "ascender": 800, "descender": -200}}
        sparse = {"glyphs": [{"name": "aacute", "unicodes": [0xE1], "width": Fr(520), "contours": [], "anchors": [],
                              "components": [("a", one + (Fr(0), Fr(0))), ("acutecomb", one + off[1])]}],
                  "glyphOrder": ["aacute"], "kerning": {}, "groups": {}, "lib": {}, "features": "",
                  "info": {"familyName": "Fam", "styleName": "Sparse", "unitsPerEm": 1000, "ascender": 800, "descender": -200}}
        masters = [full(0, off[0]), sparse, full(2, off[2])]
        case = {"function": fn, "lib": lib, "masters": [jsonable(m) for m in masters], "sparse_master": 1}
        ctx.count(); ctx.klass("sparse UFO master holding only a composite: %s" % fn); ctx.nontriv(("sum", i, ctx.scale))
        try:
            ds, fonts = dsgen.make_designspace(rng, masters, lib, instances=False)
            if fn == "compileVariableTTF":
                vf = ufo2ft.compileVariableTTF(ds, useProductionNames=False)
                b = io.BytesIO(); vf.save(b)
                got = []
                for wght in (100, 500, 900):
                    inst = instancer.instantiateVariableFont(TTFont(io.BytesIO(b.getvalue())), {"wght": wght})
                    g = inst["glyf"]["aacute"]
                    got.append([(c.glyphName, c.x, c.y) for c in g.components] if g.isComposite() else None)
            else:
                res = ufo2ft.compileInterpolatableTTFsFromDS(ds, useProductionNames=False)
                got = []
                for sd in res.sources:
                    g = sd.font["glyf"]["aacute"]
                    got.append([(c.glyphName, c.x, c.y) for c in g.components] if g.isComposite() else None)
        except Exception as e:
            ctx.spec_failure(case, "%s raised %s: %s\n%s" % (fn, type(e).__name__, e, traceback.format_exc()[-1000:]))
            continue
        want = [[("a", 0, 0), ("acutecomb", int(o[0]), int(o[1]))] for o in off]
        if got != want:
            ctx.spec_failure(dict(case, components_of_aacute=got), "the components of 'aacute' at the three masters' locations are %r; the sources say %r" % (got, want))


def cubic_distance_test(ctx, rng):
    sparse_ufo_master_section(ctx)
    skip_flatten_test(ctx, rng)
    unrounded_distance_test(ctx, rng)
    variable_composite_section(ctx)
    nested_skip_section(ctx)
    interp_mixed_cubic_section(ctx)
    import ufo2ft
    from fontTools.ttLib import TTFont
    for i in range(ctx.budget(12, 80)):
        desc = gen_component_font(rng, n=rng.randint(2, 5), kinds=("curve", "line"), classes=["identity"], mixed=False, max_depth=0)
        for g in desc["glyphs"]:
            g["components"] = []
            if not g["contours"]:
                from harness.fonts import rand_contour
                g["contours"] = [rand_contour(rng, ("curve",))]
        err = rng.choice([None, 0.001, 0.002, 0.0005])
        kw = {"useProductionNames": False}
        if err is not None:
            kw["cubicConversionError"] = err
        tol = (err or 0.001) * 1000
        case = {"font": jsonable(desc), "options": kw, "level": "cubic distance test"}
        try:
            tt = ufo2ft.compileTTF(build_font(desc), **kw)
            buf = io.BytesIO(); tt.save(buf); buf.seek(0); tt = TTFont(buf)
        except Exception as e:
            ctx.spec_failure(case, "compileTTF raised %s: %s" % (type(e).__name__, e))
            continue
        ctx.count(); ctx.klass("cubic-distance-test")
        worst = 0.0
        for g in desc["glyphs"]:
            polys = flatten_tt(tt, g["name"])
            if polys is None:
                ctx.spec_failure(dict(case, glyph=g["name"]), "cubic segment left in glyf with default options")
                continue
            allpoly = polys
            for c in g["contours"]:
                s = geom.to_segments(c)
                cur = tuple(map(float, s[1]))
                for sg in s[2]:
                    if sg[0] == "curve":
                        c1, c2 = [tuple(map(float, p)) for p in sg[1]]
                        end = tuple(map(float, sg[2]))
                        for k in range(0, 21):
                            p = cubic_pt(cur, c1, c2, end, k / 20)
                            d = min(dist_to_polyline(p, poly) for poly in allpoly)
                            worst = max(worst, d)
                    cur = tuple(map(float, sg[-1]))
        # slack: final otRound of every point moves the curve by at most sqrt(2)/2, the sampling polyline adds < 0.3
        if worst > tol + 0.7072 + 0.3:
            ctx.spec_failure(case, "quadratic spline is %.3f units from the source cubic, tolerance %.3f (+1.01 rounding/sampling slack)" % (worst, tol))
        ctx.nontriv(("cubic", i, ctx.scale))
    ctx.notes["cubic_distance_test"] = "sampled test, not a proof"


def flatten_any(tt, name, steps=24):
    """flatten_tt that also follows cubic segments (glyf format 1)"""
    polys = []
    for kind, start, segs, _ in geom.recorded_to_segments(geom.drawn_segments(tt.getGlyphSet()[name])):
        cur = tuple(map(float, start))
        poly = [cur]
        for sg in segs:
            if sg[0] == "line":
                cur = tuple(map(float, sg[1])); poly.append(cur)
            elif sg[0] == "qcurve":
                offs = [tuple(map(float, p)) for p in sg[1]]
                end = tuple(map(float, sg[2]))
                pts = [(offs[k], ((offs[k][0] + offs[k + 1][0]) / 2, (offs[k][1] + offs[k + 1][1]) / 2)) for k in range(len(offs) - 1)]
                if offs:
                    pts.append((offs[-1], end))
                for q, e in pts:
                    for k in range(1, steps + 1):
                        poly.append(quad_pt(cur, q, e, k / steps))
                    cur = e
                if not offs:
                    poly.append(end)
                cur = end
            else:
                c1, c2 = [tuple(map(float, p)) for p in sg[1]]
                end = tuple(map(float, sg[2]))
                for k in range(1, steps + 1):
                    poly.append(cubic_pt(cur, c1, c2, end, k / steps))
                cur = end
        polys.append(poly)
    return polys


def poly_distance(pa, pb):
    """largest distance from a vertex of one polyline set to the other set (both directions)"""
    worst = 0.0
    for A, B in ((pa, pb), (pb, pa)):
        for poly in A:
            for pt in poly[::10]:
                worst = max(worst, min(dist_to_polyline(pt, q) for q in B) if B else 1e9)
    return worst


def tt_options_section(ctx, rng):
    """TrueType options that must not change what is drawn: dropImpliedOnCurves (fewer points, same curve), autoUseMyMetrics
    (a composite flag), allQuadratic=False (cubics kept as cubics in glyf format 1 instead of being approximated), each against
    the default build of the same font -- compared as renderings (composites resolved by fontTools' glyph set), and the
    advances must be identical"""
    import ufo2ft
    from fontTools.ttLib import TTFont
    VARIANTS = [("dropImpliedOnCurves", {"dropImpliedOnCurves": True}, 0.05), ("autoUseMyMetrics off", {"autoUseMyMetrics": False}, 0.0),
                ("allQuadratic off", {"allQuadratic": False}, 2.95), ("drop + allQuadratic off", {"dropImpliedOnCurves": True, "allQuadratic": False}, 2.95)]
    # (2.95 = conversion error 1 unit + rounding of either outline (0.71 each) + sampling slack; a sampled test)
    for i in range(ctx.budget(8, 40)):
        lib = ["ufoLib2", "defcon"][i % 2]
        desc = gen_component_font(rng, n=rng.randint(3, 5), kinds=("line", "curve", "qcurve"), classes=["identity", "scale", "mirror_x"], max_depth=2)
        vname, kw, tol = VARIANTS[i % len(VARIANTS)]
        case = {"font": jsonable(desc), "lib": lib, "options": kw, "level": "TrueType options vs default"}
        ctx.count(); ctx.klass("tt option: " + vname); ctx.nontriv(("ttopt", i, ctx.scale))
        try:
            out = []
            for k in ({}, kw):
                tt = ufo2ft.compileTTF(build_font(desc, lib), useProductionNames=False, **k)
                buf = io.BytesIO(); tt.save(buf); buf.seek(0); out.append(TTFont(buf))
        except Exception as e:
            ctx.spec_failure(case, "compileTTF raised %s: %s\n%s" % (type(e).__name__, e, traceback.format_exc()[-1000:]))
            continue
        a, b = out
        if a.getGlyphOrder() != b.getGlyphOrder():
            ctx.spec_failure(case, "glyph order differs from the default build")
            continue
        for n in a.getGlyphOrder():
            # (the left side bearing is the box of ALL points, control points included, so it legitimately differs between a
            # cubic and a quadratic encoding of one curve: advances only)
            if a["hmtx"][n][0] != b["hmtx"][n][0]:
                ctx.spec_failure(dict(case, glyph=n), "advance of %r: %r with the option, %r by default" % (n, b["hmtx"][n][0], a["hmtx"][n][0]))
                break
            if "allQuadratic" in kw and b["glyf"][n].isComposite():
                continue          # (a scaled component scales the conversion error with it: simple glyphs only for this variant)
            pa, pb = flatten_any(a, n, steps=60), flatten_any(b, n, steps=60)
            if len(pa) != len(pb):
                ctx.spec_failure(dict(case, glyph=n), "%r has %d contours with the option, %d by default" % (n, len(pb), len(pa)))
                break
            d = poly_distance(pa, pb) if pa else 0.0
            if d > tol + 1e-6:
                # (the distance is measured between sampled polylines: on a long, tightly bent curve -- thousands of units --
                # the chord sag of 60 steps per segment is itself a few units; judge such a glyph on a 7 times finer sampling)
                pa, pb = flatten_any(a, n, steps=420), flatten_any(b, n, steps=420)
                d = poly_distance(pa, pb) if pa else 0.0
                ctx.klass("tt option: resampled finer")
            if d > tol + 1e-6:
                ctx.spec_failure(dict(case, glyph=n, distance=d), "%r is drawn %.3f units away from the default build's outline (allowed %.2f)" % (n, d, tol))
                break


def direction_section(ctx, rng):
    """reverseDirection=False: the TrueType outlines keep the SOURCE direction -- for glyphs made of lines and quadratics point
    for point (rounded, start point aside), and for every glyph the default build is the exact reversal of this one"""
    import ufo2ft
    from fontTools.ttLib import TTFont
    for i in range(ctx.budget(6, 30)):
        lib = ["ufoLib2", "defcon"][i % 2]
        desc = gen_component_font(rng, n=rng.randint(3, 5), kinds=("line", "qcurve", "curve"), classes=["identity"], max_depth=0)
        for g in desc["glyphs"]:
            g["components"] = []
        case = {"font": jsonable(desc), "lib": lib, "options": {"reverseDirection": False}, "level": "reverseDirection=False"}
        ctx.count(); ctx.klass("reverseDirection=False"); ctx.nontriv(("dir", i, ctx.scale))
        try:
            out = []
            for kw in ({"reverseDirection": False}, {}):
                tt = ufo2ft.compileTTF(build_font(desc, lib), useProductionNames=False, **kw)
                buf = io.BytesIO(); tt.save(buf); buf.seek(0); out.append(TTFont(buf))
        except Exception as e:
            ctx.spec_failure(case, "compileTTF raised %s: %s\n%s" % (type(e).__name__, e, traceback.format_exc()[-1000:]))
            continue
        kept, dflt = out
        rot = lambda c: min(tuple(c[k:] + c[:k]) for k in range(len(c))) if c else ()
        for g in desc["glyphs"]:
            a, b = read_glyf(kept, g["name"]), read_glyf(dflt, g["name"])
            # (reversing a TrueType contour: the point list reversed; flags travel with their points)
            if [rot(list(c)) for c in a["contours"]] != [rot(list(reversed(c))) for c in b["contours"]]:
                ctx.spec_failure(dict(case, glyph=g["name"]), "%r: the default build is not the reversal of the reverseDirection=False build" % g["name"])
                break
            if all(t != "curve" for c in g["contours"] for _, _, t in c) and all(any(t != "off" for _, _, t in c) for c in g["contours"]):
                src = [[(geom.ot_round(x), geom.ot_round(y), t != "off") for x, y, t in c] for c in g["contours"] if len(c) > 0]
                if [rot(c) for c in src] != [rot(list(c)) for c in a["contours"]]:
                    ctx.spec_failure(dict(case, glyph=g["name"]), "%r (lines / quadratics only) is not reproduced point for point in the source direction with "
                                     "reverseDirection=False: %r vs source %r" % (g["name"], str(a["contours"])[:200], str(src)[:200]))
                    break


def open_contour_section(ctx, rng):
    """open contours (first point a 'move'): TrueType closes every contour, so an open path is filled and has a direction like any
    other -- it is reversed with the closed ones, with and without the cubic conversion (convertCubics False / True give the
    same glyf for outlines made of lines and quadratics), and with reverseDirection=False it keeps the source order"""
    import ufo2ft
    from fontTools.ttLib import TTFont
    for i in range(ctx.budget(4, 16)):
        lib = ["ufoLib2", "defcon"][i % 2]
        d = 10 * i
        closed = [(Fr(0), Fr(0), "line"), (Fr(400 + d), Fr(0), "line"), (Fr(400 + d), Fr(400), "line"), (Fr(0), Fr(400), "line")]
        open_lines = [(Fr(100), Fr(100), "move"), (Fr(100), Fr(300 + d), "line"), (Fr(300), Fr(300 + d), "line"), (Fr(300), Fr(100), "line")]
        open_quad = [(Fr(120), Fr(120), "move"), (Fr(150), Fr(320), "off"), (Fr(280), Fr(280 + d), "qcurve"), (Fr(290), Fr(130), "line")]
        desc = {"glyphs": [{"name": "a", "unicodes": [0x61], "width": 500, "components": [], "anchors": [], "contours": [closed, open_lines]},
                           {"name": "b", "unicodes": [0x62], "width": 500, "components": [], "anchors": [], "contours": [open_quad, closed]},
                           {"name": "c", "unicodes": [0x63], "width": 500, "components": [], "anchors": [], "contours": [open_lines]}]}
        case = {"font": jsonable(desc), "lib": lib, "level": "open contours"}
        ctx.count(); ctx.klass("open contours"); ctx.nontriv(("open", i, ctx.scale))
        try:
            out = {}
            for key, kw in (("default", {}), ("convertCubics=False", {"convertCubics": False}), ("reverseDirection=False", {"reverseDirection": False}),
                            ("both off", {"convertCubics": False, "reverseDirection": False})):
                tt = ufo2ft.compileTTF(build_font(desc, lib), useProductionNames=False, **kw)
                buf = io.BytesIO(); tt.save(buf); buf.seek(0); tt = TTFont(buf)
                out[key] = {g["name"]: read_glyf(tt, g["name"])["contours"] for g in desc["glyphs"]}
        except Exception as e:
            ctx.spec_failure(case, "compileTTF raised %s: %s\n%s" % (type(e).__name__, e, traceback.format_exc()[-1000:]))
            continue
        rot = lambda c: min(tuple(c[k:] + c[:k]) for k in range(len(c))) if c else ()
        norm = lambda cs: [rot(list(c)) for c in cs]
        for g in desc["glyphs"]:
            n = g["name"]
            src = [[(int(x), int(y), t != "off") for x, y, t in c] for c in g["contours"]]
            if norm(out["reverseDirection=False"][n]) != norm(src) or norm(out["both off"][n]) != norm(src):
                ctx.spec_failure(dict(case, glyph=n), "%r: with reverseDirection=False the contours (open ones included) are not in the source order" % n)
                break
            want = norm([list(reversed(c)) for c in src])
            for key in ("default", "convertCubics=False"):
                if norm(out[key][n]) != want:
                    ctx.spec_failure(dict(case, glyph=n, options=key), "%r (%s): not every contour -- open ones included -- is the reversed source contour: %r" % (
                        n, key, str(out[key][n])[:200]))
                    break


def notdef_section(ctx, rng):
    """a caller-supplied .notdef (the notdefGlyph option; the UFO has none of its own) is an outline like any other: in the
    TrueType font it must come out exactly as the same outline does when compiled as an ordinary glyph of that font
    (converted, reversed to the TrueType direction, rounded)"""
    import ufo2ft
    from fontTools.ttLib import TTFont
    for i in range(ctx.budget(6, 30)):
        lib = ["ufoLib2", "defcon"][i % 2]
        # (lines and quadratics only: the supplied glyph joins the glyph set after the pre-processor has run, so a cubic outline
        # passed through this internal option is not converted and compileTTF rejects it -- observation O12, not demanded here)
        desc = gen_component_font(rng, kinds=("line", "qcurve"), classes=["identity"], max_depth=1)
        simple = [g["name"] for g in desc["glyphs"] if g["contours"] and not g["components"]]
        if not simple:
            continue
        nm = simple[i % len(simple)]
        how = ["compileTTF", "compileInterpolatableTTFs", "compileTTF"][i % 3]
        case = {"font": jsonable(desc), "lib": lib, "notdefGlyph": nm, "function": how, "level": "notdefGlyph option"}
        ctx.count(); ctx.klass("notdefGlyph option/" + how); ctx.nontriv(("notdef", i, ctx.scale))
        try:
            f = build_font(desc, lib)
            assert ".notdef" not in f
            if how == "compileTTF":
                tts = [ufo2ft.compileTTF(f, notdefGlyph=f[nm], useProductionNames=False)]
            else:
                tts = list(ufo2ft.compileInterpolatableTTFs([f, build_font(desc, lib)], notdefGlyph=f[nm], useProductionNames=False))
        except Exception as e:
            ctx.spec_failure(case, "raised %s: %s\n%s" % (type(e).__name__, e, traceback.format_exc()[-1000:]))
            continue
        for tt in tts:
            buf = io.BytesIO(); tt.save(buf); buf.seek(0); tt = TTFont(buf)
            a, b = read_glyf(tt, ".notdef"), read_glyf(tt, nm)
            # same closed contours in the same direction; the start point may differ (the pre-processor's reversal rotates a
            # contour to its first on-curve point first, the copy of the supplied glyph does not)
            rot = lambda c: min(tuple(c[k:] + c[:k]) for k in range(len(c))) if c else ()
            if [rot(list(c)) for c in a["contours"]] != [rot(list(c)) for c in b["contours"]] or a["components"] != b["components"]:
                ctx.spec_failure(case, "the supplied .notdef outline compiles to %r, the same outline as the ordinary glyph %r to %r" % (
                    str(a)[:200], nm, str(b)[:200]))
                break


def explore(ctx):
    interp_flatten_section(ctx)
    from harness.pipeline_check import pipeline_section
    pipeline_section(ctx, "ttf")
    notdef_section(ctx, ctx.subrng("notdef"))
    tt_options_section(ctx, ctx.subrng("tt-options"))
    direction_section(ctx, ctx.subrng("direction"))
    open_contour_section(ctx, ctx.subrng("open-contours"))
    import ufo2ft
    from fontTools.ttLib import TTFont
    from ufo2ft.preProcessor import TTFPreProcessor
    rng = ctx.subrng("tt")
    pre, glyf = ([], []), ([], [])
    for i in range(ctx.budget(50, 400)):
        desc = gen_component_font(rng, kinds=("line", "qcurve"), classes=TT_CLASSES, max_depth=4)
        lib = rng.choice(["ufoLib2", "defcon"])
        flatten = rng.random() < 0.5
        convert = rng.random() < 0.7
        if rng.random() < 0.3:
            # what fontTools.cu2qu.ufo.fonts_to_quadratic leaves behind (possibly stale): must not matter for a non-inplace compile
            desc["lib"] = {"com.github.googlei18n.cu2qu.curve_type": rng.choice(["quadratic", "quadratic", "cubic", "mixed"])}
        case = {"font": jsonable(desc), "lib": lib, "flattenComponents": flatten, "convertCubics": convert}
        ctx.count()
        if desc.get("lib"):
            ctx.klass("cu2qu.curve_type lib key present")
        by = {g["name"]: g for g in desc["glyphs"]}
        if any(g["contours"] and g["components"] for g in desc["glyphs"]) or any(
                by[b]["components"] or t[0] * t[3] - t[1] * t[2] < 0 for g in desc["glyphs"] for b, t in g["components"]):
            ctx.nontriv(("tt", i, ctx.scale))
        ctx.klass("flatten=%s/convert=%s/%s" % (flatten, convert, lib))
        gs_term = geom.g_glyphset(desc["glyphs"])
        try:
            gset = TTFPreProcessor(build_font(desc, lib), flattenComponents=flatten, convertCubics=convert).process()
            after = geom.snapshot_glyphset(gset)
            pre[0].append(G.tup(G.b(flatten), G.b(convert), gs_term, geom.g_glyphset(after)))
            pre[1].append(dict(case, level="TTFPreProcessor glyph set"))
            tt = ufo2ft.compileTTF(build_font(desc, lib), useProductionNames=False, flattenComponents=flatten,
                                   convertCubics=convert)
            buf = io.BytesIO(); tt.save(buf); buf.seek(0); tt = TTFont(buf)
        except Exception as e:
            ctx.spec_failure(case, "raised %s: %s\n%s" % (type(e).__name__, e, traceback.format_exc()[-1200:]))
            continue
        bad = overflowing(desc, flatten)
        if bad:
            ctx.klass("F2Dot14-overflow glyphs skipped", len(bad))
        obs = [g_tt(g["name"], read_glyf(tt, g["name"])) for g in desc["glyphs"] if g["name"] not in bad]
        glyf[0].append(G.tup(G.b(flatten), G.b(convert), gs_term, G.lst(obs, "(str * tt_glyph)")))
        glyf[1].append(dict(case, level="compiled glyf"))
        check_maxp(ctx, dict(case, level="maxp"), tt)
    for (cases, meta), fn, tag, msg in (
            (pre, FN_PRE, "Pre", "pre-processed TrueType glyph set: a mixed glyph is left, nesting deeper than one level after "
                                 "flattening, or resolved outlines are not the reversed source outlines"),
            (glyf, FN_GLYF, "Glyf", "glyf data differs from the rounded, reversed, resolved source outline / source components")):
        vals = ctx.coq_eval(IMPORTS, fn, cases, chunk=6, tag=tag)
        for v, case in zip(vals, meta):
            if v is None:
                continue
            if not v & 2:
                ctx.spec_failure(case, msg)
            elif not v & 1:
                ctx.corr_mismatch(case, "Gallina tt_pre/tt_of_glyph differs from the implementation (%s)" % case["level"])
        if meta:
            ctx.sample({"level": meta[0]["level"], "flatten": meta[0]["flattenComponents"], "glyphs": meta[0]["font"]["glyphs"][:2]})
    cubic_distance_test(ctx, ctx.subrng("cubic"))
    # cyclic reference is rejected
    for lib in ("ufoLib2", "defcon"):
        desc = {"glyphs": [{"name": "a", "width": 500, "components": [("b", (1, 0, 0, 1, 0, 0))]},
                           {"name": "b", "width": 500, "components": [("a", (1, 0, 0, 1, 10, 0))]}]}
        ctx.count()
        try:
            ufo2ft.compileTTF(build_font(desc, lib))
            ctx.spec_failure({"font": jsonable(desc)}, "cyclic component reference was accepted")
        except Exception as e:
            ctx.klass("cycle rejected:" + type(e).__name__)
