"""C10 -- a variable font reproduces each master at that master's location."""
import copy, io, traceback
from fractions import Fraction as Fr
from harness import dsgen, geom, gterm as G
from harness.fonts import build_font, jsonable
from harness.otl import Layout

PID = "C10"
LEVEL_TEXT = ("PARTIAL. Proved in Coq: in the variable kerning writer every source contributes its own UFO lookup value (UFO "
              "precedence) and a two-master variable scalar / outline vector evaluates, at a master's location, to that master's "
              "value; and for ANY number of masters and axes the variation model (getDeltas + interpolateFromDeltas, Interp/VarModel.v) "
              "reproduces every master at its location whenever the regions' scalars at the master locations are unit lower "
              "triangular -- a hypothesis evaluated on the real VariationModel of every generated family, with the Gallina deltas "
              "and interpolation compared exactly. collapse_varscalar (a variable value written as a constant) is transcribed "
              "(Interp/Collapse.v): a collapsed value is the value of every master, and a model whose masters all have it yields it "
              "everywhere -- compared exactly with the real function on value lists agreeing pairwise in every pattern. Everything else in a variable build -- gvar/HVAR/CFF2 encoding, feature "
              "variation tables -- is varLib/feaLib (environment), so the property is observed on the implementation: each compiled "
              "variable font (TrueType and CFF2, layout merged per master or built as variable features, one and two axes, "
              "several variable fonts per designspace) is instantiated with fontTools.varLib.instancer at every full master's "
              "location and compared with the interpolatable master (outlines and advances within one unit) and with the master "
              "UFO's kerning and anchors read through the independent GPOS interpreter.")
LEVEL_NOTE = "Trusted: Coq kernel for the theorems; harness, GPOS interpreter, fontTools instancer."
TECHNIQUE = "Coq theorems on per-source kerning and variable scalars at master locations + instantiation of compiled variable fonts at every master location"
RULE = ("families of 2-3 compatible masters on one axis (plus 4-corner two-axis families), kerning that differs per master incl. "
        "pairs present in one master only, top/_top anchors, x {compileVariableTTF, compileVariableCFF2} x variableFeatures "
        "{True, False} x both UFO libraries. Non-trivial = every (family, function, master) triple."
        " Class kerning with 0 in one master, several variable fonts per document (one from a non-prefix subset of the sources), one 2x2 entry differing between masters, kernFeatureWriter2, anchors added by a lib filter (F14).")
F14_SIG = "variable-features-anchor-added-by-filter"
ASSUMPTIONS = ["fontTools.varLib.instancer.instantiateVariableFont evaluates the variation data as a renderer would"]


def add_marks(base):
    base["glyphs"] = [g for g in base["glyphs"] if g["name"] != "acutecomb"]
    for g in base["glyphs"]:
        g["components"] = [(b, t) for b, t in g["components"] if b != "acutecomb"]
    base["kerning"] = {k: v for k, v in base["kerning"].items() if "acutecomb" not in k}
    names = [g["name"] for g in base["glyphs"]]
    if base.get("glyphOrder"):
        base["glyphOrder"] = list(names)
    for g in base["glyphs"]:
        g["anchors"] = [a for a in g.get("anchors", []) if a[0] in ("top",)]
        if not g["anchors"]:
            g["anchors"] = [("top", Fr(200), Fr(650))]
    base["glyphs"].append({"name": "acutecomb", "unicodes": [0x301], "width": Fr(0), "components": [],
                           "contours": [[(Fr(-50), Fr(600), "line"), (Fr(50), Fr(600), "line"), (Fr(0), Fr(700), "line")]],
                           "anchors": [("_top", Fr(0), Fr(580))]})
    base["lib"] = {"public.openTypeCategories": dict({n: "base" for n in names}, acutecomb="mark")}
    if base.get("glyphOrder"):
        base["glyphOrder"] = list(base["glyphOrder"]) + ["acutecomb"]
    return base


def outline_points(tt, name):
    gs = tt.getGlyphSet()
    segs = geom.recorded_to_segments(geom.drawn_segments(gs[name]))
    pts = []
    for s in segs:
        pts.append(s[1])
        for sg in s[2]:
            if sg[0] != "line":
                pts.extend(sg[1])
            pts.append(sg[-1])
    return pts


def sparse_flatten_section(ctx):
    """a sparse intermediate layer listed BETWEEN the full masters + nested composites + flattenComponents: at every full
    master's location the variable font must render each glyph like that master compiled on its own (an oracle that shares
    no interpolatable code with the variable build)"""
    import ufo2ft
    from fontTools.ttLib import TTFont
    from fontTools.varLib import instancer
    from fontTools.designspaceLib import SourceDescriptor
    from harness.props.c13 import flat_contours, same_rendering
    rng = ctx.subrng("sparse-flatten")
    for i in range(ctx.budget(6, 30)):
        lib = ["ufoLib2", "defcon"][i % 2]
        base = dsgen.base_master(rng, kinds=("line",), max_depth=2, anchors=False, classes=["identity", "scale", "mirror_x"])
        masters = [base, dsgen.perturb(rng, base, 1)]
        simple = [g["name"] for g in base["glyphs"] if not g["components"] and g["contours"]]
        if not simple or not any(g["components"] for g in base["glyphs"]):
            continue
        flatten = i % 3 != 2
        ds, fonts = dsgen.make_designspace(rng, masters, lib, instances=False)
        layer = fonts[0].newLayer("mid")
        nm = rng.choice(simple)
        gl = layer.newGlyph(nm)
        gl.width = fonts[0][nm].width
        pen = gl.getPointPen()
        for c in next(g for g in base["glyphs"] if g["name"] == nm)["contours"]:
            pen.beginPath()
            for k, (x, y, t) in enumerate(c):
                pen.addPoint((int(x) + 25 + 3 * k, int(y) - 15), segmentType=t)
            pen.endPath()
        sd = SourceDescriptor()
        sd.font, sd.layerName, sd.location, sd.name = fonts[0], "mid", {"Weight": 500}, "master.mid"
        sd.familyName, sd.styleName = "Fam", "Mid"
        ds.sources.insert(1, sd)                  # Regular, Medium (sparse), Bold
        case = {"function": "compileVariableTTF", "flattenComponents": flatten, "lib": lib, "font": jsonable(base),
                "last_master": jsonable(masters[1]), "sparse_layer": {"at": 500, "glyph": nm, "position_in_sources": 1}}
        ctx.count(); ctx.klass("sparse layer between masters/flatten=%s" % flatten); ctx.nontriv(("sf", i, ctx.scale))
        try:
            vf = ufo2ft.compileVariableTTF(ds, flattenComponents=flatten)
            b = io.BytesIO(); vf.save(b)
            statics = [ufo2ft.compileTTF(build_font(m, lib), flattenComponents=flatten) for m in masters]
        except Exception as e:
            ctx.spec_failure(case, "compile raised %s: %s\n%s" % (type(e).__name__, e, traceback.format_exc()[-1000:]))
            continue
        for k, loc in ((0, 100), (1, 900)):
            inst = instancer.instantiateVariableFont(TTFont(io.BytesIO(b.getvalue())), {"wght": loc})
            for n in inst.getGlyphOrder():
                if n not in statics[k].getGlyphOrder():
                    continue
                if not same_rendering(flat_contours(inst, n), flat_contours(statics[k], n), tol=2):
                    ctx.spec_failure(dict(case, master=k, glyph=n), "at master %d's location glyph %r does not render like that master "
                                     "compiled on its own" % (k, n))
                    break


def mixed_in_one_master_vf_section(ctx):
    """a glyph that mixes a contour with a component in ONE master (the default, or the last one) and is a pure composite or a
    pure outline -- of the same shape -- in the other: the variable font (glyf; cubic conversion on and off) instantiated at each
    master's location renders every glyph, and gives it the advance, of that master compiled alone"""
    import ufo2ft
    from harness.props.c13 import flat_contours, same_rendering
    from fontTools.ttLib import TTFont
    from fontTools.varLib import instancer
    rng = ctx.subrng("mixed-one-vf")
    box = lambda x0, y0, x1, y1: [(Fr(x0), Fr(y0), "line"), (Fr(x1), Fr(y0), "line"), (Fr(x1), Fr(y1), "line"), (Fr(x0), Fr(y1), "line")]
    one = (Fr(1), Fr(0), Fr(0), Fr(1))
    for i in range(ctx.budget(8, 16)):
        lib = ["ufoLib2", "defcon"][i % 2]
        mixed_in = [0, 1][(i // 2) % 2]
        other_form = ["composite", "outline"][(i // 4) % 2]
        kw = {"convertCubics": False} if (i // 8) % 2 else {}
        def master(k):
            w = 60 * k
            letter, accent = box(60 + 10 * k, 0, 440 + w, 500), box(-40, 0, 40 + w // 2, 80)
            if k == mixed_in:        # the letter part redrawn, the accent left as a component
                g = {"contours": [letter], "components": [("acutecomb", one + (Fr(250), Fr(550)))]}
            elif other_form == "composite":
                g = {"contours": [], "components": [("A", one + (Fr(0), Fr(0))), ("acutecomb", one + (Fr(250), Fr(550)))]}
            else:
                g = {"contours": [letter, [(x + 250, y + 550, t) for x, y, t in accent]], "components": []}
            gl = [{"name": "A", "unicodes": [0x41], "width": Fr(500 + 70 * k), "contours": [letter], "components": [], "anchors": []},
                  {"name": "acutecomb", "unicodes": [0x301], "width": Fr(0), "contours": [accent], "components": [], "anchors": []},
                  dict(g, name="Aacute", unicodes=[0xC1], width=Fr(500 + 70 * k), anchors=[])]
            return {"glyphs": gl, "glyphOrder": ["A", "acutecomb", "Aacute"], "kerning": {}, "groups": {}, "lib": {}, "features": "",
                    "info": {"familyName": "Fam", "styleName": "M%d" % k, "unitsPerEm": 1000, "ascender": 800, "descender": -200}}
        masters = [master(0), master(1)]
        case = {"function": "compileVariableTTF", "options": jsonable(kw), "lib": lib, "masters": [jsonable(m) for m in masters],
                "variant": "Aacute is mixed in master %d only, a pure %s in the other" % (mixed_in, other_form)}
        ctx.count(); ctx.klass("variable font: glyph mixed in master %d only / %s elsewhere%s" % (mixed_in, other_form, " / no cubic conversion" if kw else ""))
        ctx.nontriv(("m1vf", i, ctx.scale))
        try:
            ds, fonts = dsgen.make_designspace(rng, masters, lib, instances=False)
            vf = ufo2ft.compileVariableTTF(ds, useProductionNames=False, **kw)
            b = io.BytesIO(); vf.save(b)
            alone = [ufo2ft.compileTTF(build_font(m, lib), useProductionNames=False, **kw) for m in masters]
        except Exception as e:
            ctx.spec_failure(case, "compile raised %s: %s\n%s" % (type(e).__name__, e, traceback.format_exc()[-1000:]))
            continue
        for k, wght in enumerate([100, 900]):
            inst = instancer.instantiateVariableFont(TTFont(io.BytesIO(b.getvalue())), {"wght": wght})
            b2 = io.BytesIO(); inst.save(b2); inst = TTFont(io.BytesIO(b2.getvalue()))
            b3 = io.BytesIO(); alone[k].save(b3); ref = TTFont(io.BytesIO(b3.getvalue()))
            bad = [n for n in ("A", "acutecomb", "Aacute") if not same_rendering(flat_contours(ref, n), flat_contours(inst, n), tol=1.5)
                   or abs(inst["hmtx"][n][0] - ref["hmtx"][n][0]) > 1]
            if bad:
                ctx.spec_failure(dict(case, master=k, glyphs=bad), "at master %d's location the variable font renders %r (or gives them an advance) "
                                 "differently from that master compiled alone" % (k, bad))
                break


def collapse_section(ctx):
    """util.collapse_varscalar against Interp/Collapse.v: value lists of 1-5 masters in source order, agreeing pairwise in every
    pattern (all equal, first = last only, first = second only, none)"""
    from fontTools.feaLib.variableScalar import VariableScalar
    from ufo2ft.util import collapse_varscalar
    rng = ctx.subrng("collapse")
    cases, meta = [], []
    for i in range(ctx.budget(120, 800)):
        n = rng.randint(1, 5)
        pool = rng.sample([-70, -40, 0, 12, 250, 270], rng.randint(1, 2))
        values = [rng.choice(pool) for _ in range(n)]
        thr = [0, 0, 0, 5][i % 4]
        vs = VariableScalar()
        for k, v in enumerate(values):
            vs.add_value({"wght": 100 + 100 * k}, v)
        got = collapse_varscalar(vs, threshold=thr)
        const = None if isinstance(got, VariableScalar) else got
        ctx.count(); ctx.klass("collapse: %s" % ("collapsed" if const is not None else "kept variable"))
        if n >= 3 and len(set(values)) > 1:
            ctx.nontriv(("cl", i, ctx.scale))
        cases.append(G.tup(G.lst([geom.g_q(Fr(v)) for v in values], "Qc"), geom.g_q(Fr(thr)), G.opt(None if const is None else geom.g_q(Fr(const)), "Qc")))
        meta.append({"values_in_source_order": values, "threshold": thr, "implementation": const})
    vals = ctx.coq_eval("From Coq Require Import QArith Qcanon.\nFrom U2F Require Import Base.Prelude Geometry.Model Interp.Collapse.",
                        "fun c : (list Qc * Qc * option Qc) => let '(vs, t, got) := c in if option_eqb qc_eqb (collapse vs t) got then 3 else 2",
                        cases, chunk=200, tag="Collapse")
    for v, case in zip(vals, meta):
        if v is not None and v != 3:
            ctx.corr_mismatch(case, "Gallina collapse (Interp/Collapse.v) differs from util.collapse_varscalar")


def collinear_section(ctx):
    """point-compatible masters in which a point is COLLINEAR with its neighbours in one master only (in the middle of an exactly
    vertical / horizontal edge, or coincident with its neighbour) and in general position in the others: an encoder that
    simplifies each master on its own would drop it there.  glyf and CFF2, default options; the variable font instantiated at
    every master's location has that master's bounds and area for every glyph"""
    import ufo2ft
    from fontTools.varLib import instancer
    from fontTools.ttLib import TTFont
    from fontTools.pens.areaPen import AreaPen
    from fontTools.pens.boundsPen import BoundsPen
    rng = ctx.subrng("collinear")
    for i in range(ctx.budget(8, 24)):
        lib = ["ufoLib2", "defcon"][i % 2]
        fn = ["compileVariableCFF2", "compileVariableTTF"][(i // 2) % 2 if i >= 4 else 0]
        which = [1, 2, 0][(i // 2) % 3] if i < 6 else i % 3          # the master in which the point is collinear
        kind = ["vertical", "horizontal", "coincident"][(i // 4) % 3]

        def master(k):
            d = 20 * k
            coll = k == which
            if kind == "vertical":
                mid = (Fr(200 + d), Fr(60)) if coll else (Fr(190 + d), Fr(60))
                pts = [(Fr(0), Fr(0)), (Fr(200 + d), Fr(0)), mid, (Fr(200 + d), Fr(120)), (Fr(0), Fr(120))]
            elif kind == "horizontal":
                mid = (Fr(100), Fr(120 + d)) if coll else (Fr(100), Fr(131 + d))
                pts = [(Fr(0), Fr(0)), (Fr(200), Fr(0)), (Fr(200), Fr(120 + d)), mid, (Fr(0), Fr(120 + d))]
            else:
                mid = (Fr(200 + d), Fr(120)) if coll else (Fr(215 + d), Fr(100))
                pts = [(Fr(0), Fr(0)), (Fr(200 + d), Fr(0)), mid, (Fr(200 + d), Fr(120)), (Fr(0), Fr(120))]
            gl = [{"name": "A", "unicodes": [0x41], "width": Fr(300 + d), "components": [], "anchors": [], "contours": [[(x, y, "line") for x, y in pts]]},
                  {"name": "B", "unicodes": [0x42], "width": Fr(300), "components": [], "anchors": [],
                   "contours": [[(Fr(10), Fr(0), "line"), (Fr(150 + d), Fr(0), "line"), (Fr(80), Fr(200), "line")]]}]
            return {"glyphs": gl, "glyphOrder": ["A", "B"], "kerning": {}, "groups": {}, "lib": {},
                    "info": {"familyName": "Fam", "styleName": "M%d" % k, "unitsPerEm": 1000, "ascender": 800, "descender": -200}}
        masters = [master(k) for k in range(3)]
        case = {"function": fn, "lib": lib, "collinear_in_master": which, "kind": kind, "masters": [jsonable(m) for m in masters]}
        ctx.count(); ctx.klass("collinear point in master %d only (%s)/%s" % (which, kind, fn)); ctx.nontriv(("col", i, ctx.scale))
        try:
            ds, fonts = dsgen.make_designspace(rng, masters, lib, instances=False)
            vf = getattr(ufo2ft, fn)(ds, useProductionNames=False)
            b = io.BytesIO(); vf.save(b)
        except Exception as e:
            ctx.spec_failure(case, "%s raised %s: %s\n%s" % (fn, type(e).__name__, e, traceback.format_exc()[-1000:]))
            continue
        for k, wght in enumerate([100, 500, 900]):
            inst = instancer.instantiateVariableFont(TTFont(io.BytesIO(b.getvalue())), {"wght": wght})
            b2 = io.BytesIO(); inst.save(b2); inst = TTFont(io.BytesIO(b2.getvalue()))
            gs = inst.getGlyphSet()
            bad = None
            for g in masters[k]["glyphs"]:
                pts = [(float(x), float(y)) for x, y, _ in g["contours"][0]]
                area = abs(sum(pts[j][0] * pts[(j + 1) % len(pts)][1] - pts[(j + 1) % len(pts)][0] * pts[j][1] for j in range(len(pts)))) / 2
                box = (min(p[0] for p in pts), min(p[1] for p in pts), max(p[0] for p in pts), max(p[1] for p in pts))
                ap, bp = AreaPen(gs), BoundsPen(gs)
                gs[g["name"]].draw(ap); gs[g["name"]].draw(bp)
                if bp.bounds is None or any(abs(a_ - b_) > 1.01 for a_, b_ in zip(bp.bounds, box)) or abs(abs(ap.value) - area) > 0.02 * area + 50:
                    bad = (g["name"], bp.bounds, abs(ap.value), box, area)
                    break
            if bad:
                ctx.spec_failure(dict(case, master=k, glyph=bad[0]),
                                 "at master %d's location glyph %r has bounds %r and area %.0f; the master's outline has bounds %r and area %.0f" % ((k,) + bad))
                break


def explore(ctx):
    mixed_in_one_master_vf_section(ctx)
    collapse_section(ctx)
    collinear_section(ctx)
    from harness.props.c19 import varmodel_section
    varmodel_section(ctx, "c10")
    sparse_flatten_section(ctx)
    import ufo2ft
    from fontTools.varLib import instancer
    from fontTools.ttLib import TTFont
    rng = ctx.subrng("vf")
    for i in range(ctx.budget(14, 84)):
        lib = ["ufoLib2", "defcon"][i % 2]
        two_axes = (i % 5 == 4)
        base = add_marks(dsgen.base_master(rng, anchors=True, max_depth=1,
                                           classes=["identity", "shear", "general_small"]))
        if i % 3 == 2:
            # a pure composite with a plain (identity) 2x2, so that the one-entry difference below is always possible
            simple = next((g["name"] for g in base["glyphs"] if g["contours"] and not g["components"] and g["name"] != "acutecomb"), None)
            if simple:
                base["glyphs"].insert(len(base["glyphs"]) - 1, {"name": "purecomp", "unicodes": [], "width": Fr(520), "contours": [],
                                                                 "components": [(simple, (Fr(1), Fr(0), Fr(0), Fr(1), Fr(20), Fr(0)))],
                                                                 "anchors": [("top", Fr(210), Fr(640))]})
                if base.get("glyphOrder"):
                    base["glyphOrder"] = [g["name"] for g in base["glyphs"]]
                base["lib"]["public.openTypeCategories"]["purecomp"] = "base"
        multi = (i % 6 == 5) and not two_axes      # several variable fonts in one designspace, one built from a subset of the sources
        n = 4 if two_axes else (3 if multi else [3, 2][i % 2])
        masters = [base] + [dsgen.perturb(rng, base, k, amount=40) for k in range(1, n)]
        names = [g["name"] for g in base["glyphs"]]
        # a pure composite whose component 2x2 differs between masters in ONE entry only (gvar cannot vary a 2x2: the glyph
        # has to be decomposed in every master, or the variable font does not reproduce that master)
        diff2x2 = None
        pure = [g["name"] for g in base["glyphs"] if g["components"] and not g["contours"] and g["name"] != "acutecomb"]
        if i % 3 == 2 and pure:
            which = ["yy", "xx", "yx", "xy"][(i // 3) % 4]
            gname = "purecomp" if "purecomp" in pure else rng.choice(pure)
            g = next(x for x in masters[-1]["glyphs"] if x["name"] == gname)
            b, t = g["components"][0]
            t2 = {"yy": (t[0], t[1], t[2], t[3] * Fr(5, 4)), "xx": (t[0] * Fr(5, 4), t[1], t[2], t[3]),
                  "yx": (t[0], t[1], t[2] + Fr(1, 8), t[3]), "xy": (t[0], t[1] + Fr(1, 8), t[2], t[3])}[which]
            if (t2[0] * t2[3] - t2[1] * t2[2]) * (t[0] * t[3] - t[1] * t[2]) > 0 and all(abs(v) <= Fr(7, 4) for v in t2):
                g["components"][0] = (b, t2 + (t[4], t[5]))
                diff2x2 = (gname, which)
        vfeat = rng.random() < 0.5
        if multi:
            vfeat = (i // 6) % 2 == 0
        # class kerning: a class/class pair and a glyph/class exception, values differing per master
        # (a third member of the second-side class where there is one: the class value stays visible on a pair that has no
        # exception in any master)
        groups = {"public.kern1.L": [names[0]], "public.kern2.R": [names[1], names[2]] + ([names[3]] if len(names) > 3 and names[3] != "acutecomb" else [])}
        for k, m in enumerate(masters):
            m["groups"] = dict(groups)
            m["kerning"][("public.kern1.L", "public.kern2.R")] = Fr(-50 - 15 * k)
            m["kerning"][(names[2], "public.kern2.R")] = Fr(12 + 4 * k)
        nonmono = n == 3 and not multi and not two_axes and i % 4 in (0, 2)
        if nonmono:
            # values that are NOT monotonic along the axis: the class pair is the same in the first and the last master and
            # different in the middle one, the exception the same in the first two and different in the last; likewise a
            # base anchor and the mark's anchor -- a variable value must not be collapsed to a constant because two of its
            # masters agree
            vfeat = i % 4 == 0
            masters[2]["kerning"][("public.kern1.L", "public.kern2.R")] = masters[0]["kerning"][("public.kern1.L", "public.kern2.R")]
            masters[1]["kerning"][(names[2], "public.kern2.R")] = masters[0]["kerning"][(names[2], "public.kern2.R")]
            def set_anchor(m, gname, aname, src):
                g = next(x for x in m["glyphs"] if x["name"] == gname)
                s0 = next(x for x in src["glyphs"] if x["name"] == gname)
                a0 = next((a for a in s0["anchors"] if a[0] == aname), None)
                if a0 is not None:
                    g["anchors"] = [a0 if a[0] == aname else a for a in g["anchors"]]
            with_top = [g["name"] for g in base["glyphs"] if any(a[0] == "top" for a in g["anchors"]) and g["name"] != "acutecomb"]
            if with_top:
                set_anchor(masters[2], with_top[0], "top", masters[0])
            set_anchor(masters[1], "acutecomb", "_top", masters[0])
        if i % 2 == 0:
            # fractional anchor coordinates (halves and other fractions, positive and negative), different in every master: each
            # master's anchor is rounded on its own, half up
            fr = [Fr(1, 2), Fr(3, 4), Fr(1, 4), Fr(-5, 8)]
            for k, m in enumerate(masters):
                for g in m["glyphs"]:
                    g["anchors"] = [(a[0], Fr(a[1]) + fr[(k + j) % 4], Fr(a[2]) - fr[(k + 2 * j + 1) % 4]) if a[0] in ("top", "_top") else a
                                    for j, a in enumerate(g["anchors"])]
            ctx.klass("fractional anchors")
        if vfeat and not nonmono and (rng.random() < 0.6 or i % 2 == 1):
            # ... and 0 in one non-default master (with merged per-master layout the pair sets must be identical)
            masters[rng.randrange(1, n)]["kerning"][("public.kern1.L", "public.kern2.R")] = Fr(0)
        propagate = (i % 5 == 3) and any(g["components"] for g in base["glyphs"])
        if propagate:
            vfeat = (i // 5) % 2 == 0
        if propagate:
            # composites get their anchors from a propagateAnchors filter in the lib (only in the glyph sets being compiled)
            for m in masters:
                for g in m["glyphs"]:
                    if g["components"]:
                        g["anchors"] = []
                m.setdefault("lib", {})["com.github.googlei18n.ufo2ft.filters"] = [{"name": "propagateAnchors", "pre": True}]
        if vfeat:
            # a kerning pair present in the last master only (with layout merged per master fontTools' varLib
            # merger needs every pair in the default master: "Base master not found" -- environment limit)
            masters[-1]["kerning"][(names[2], names[0])] = Fr(-33)
            # ... and a glyph/glyph exception INSIDE a class pair, listed by one master only (the last, the default or a middle
            # one): where it is not listed the pair has the master's class value
            masters[[-1, 0, 1 % n][(i // 2) % 3]]["kerning"][(names[0], names[2])] = Fr(-9)
            ctx.klass("exception inside a class pair listed by one master only")
            if len(names) > 3 and names[3] != "acutecomb":
                # ... and a kerning GROUP that only the last master defines, with a class pair using it
                masters[-1]["groups"] = dict(masters[-1]["groups"], **{"public.kern1.X": [names[3]]})
                masters[-1]["kerning"][("public.kern1.X", names[0])] = Fr(-22)
                ctx.klass("kerning group defined by a non-default master only")
        if vfeat and i % 4 == 0 and n >= 3 and not propagate:
            # feature files that differ from master to master in a COMMENT only (not on the last line) are the same features: the
            # layout is still built as variable features -- where a master WITHOUT any kerning means zero kerning there
            for k, m in enumerate(masters):
                m["features"] = "# feature file of master %d\n" % k + (m.get("features") or "languagesystem DFLT dflt;\n")
            masters[1]["kerning"] = {}
            ctx.klass("feature files differing in a comment only, one master without kerning")
        # (merged layout needs structurally identical per-master GPOS: same pairs in every master)
        if multi:
            from fontTools.designspaceLib import VariableFontDescriptor, RangeAxisSubsetDescriptor, ValueAxisSubsetDescriptor
            axes = [("Weight", "wght", 100, 100, 900), ("Width", "wdth", 50, 100, 100)]
            # source order Regular, Condensed, Bold: the weight-only font keeps sources 0 and 2 (not a prefix of the list)
            locs = [{"Weight": 100, "Width": 100}, {"Weight": 100, "Width": 50}, {"Weight": 900, "Width": 100}]
            ds, fonts = dsgen.make_designspace(rng, masters, lib, axes=axes, locations=locs, instances=False)
            ds.formatVersion = "5.0"
            ds.addVariableFont(VariableFontDescriptor(name="VFFull", axisSubsets=[RangeAxisSubsetDescriptor(name="Weight"),
                                                                              RangeAxisSubsetDescriptor(name="Width")]))
            ds.addVariableFont(VariableFontDescriptor(name="VFWght", axisSubsets=[RangeAxisSubsetDescriptor(name="Weight"),
                                                                              ValueAxisSubsetDescriptor(name="Width", userValue=100)]))
        elif two_axes:
            axes = [("Weight", "wght", 100, 100, 900), ("Width", "wdth", 50, 50, 100)]
            locs = [{"Weight": 100, "Width": 50}, {"Weight": 900, "Width": 50}, {"Weight": 100, "Width": 100}, {"Weight": 900, "Width": 100}]
            ds, fonts = dsgen.make_designspace(rng, masters, lib, axes=axes, locations=locs, instances=False)
        else:
            ds, fonts = dsgen.make_designspace(rng, masters, lib, instances=False)
            locs = [dict(s.location) for s in ds.sources]
            if n == 3 and i % 8 in (0, 2):
                # an axis <map> that is not the identity: the middle master sits at design 500, which is USER 400 (fvar, the
                # variable features' locations and the instancer all speak user coordinates)
                ds.axes[0].map = [(100, 100), (400, 500), (900, 900)]
                ctx.klass("axis with a non-identity <map>")
        fn = ["compileVariableTTF", "compileVariableCFF2"][(i // 2) % 2]
        if diff2x2:
            fn = "compileVariableTTF"       # (CFF2 has no composites: nothing to decide there)
        if multi:
            fn += "s"
        case = {"function": fn, "variableFeatures": vfeat, "lib": lib, "masters": n, "two_axes": two_axes, "font": jsonable(base),
                "last_master": jsonable(masters[-1]), "component_2x2_differs_in_last_master": diff2x2,
                "variable_fonts": ["VFFull: all sources", "VFWght: sources 0 and 2 (Width fixed at 100)"] if multi else None}
        tagmap = {a.name: a.tag for a in ds.axes}
        wkw = {}
        if i % 7 == 3 and fn.startswith("compileVariableTTF"):
            wkw["optimizeGvar"] = False          # (IUP optimisation off: more deltas stored, same instances)
            case["optimizeGvar"] = False
            ctx.klass("optimizeGvar=False")
        if i % 4 == 1:
            # the other kern writer shipped with ufo2ft (its variable-kerning code is separate)
            from ufo2ft.featureWriters.kernFeatureWriter2 import KernFeatureWriter as KernFeatureWriter2
            from ufo2ft.featureWriters import MarkFeatureWriter, GdefFeatureWriter, CursFeatureWriter
            wkw["featureWriters"] = [KernFeatureWriter2, MarkFeatureWriter, GdefFeatureWriter, CursFeatureWriter]
            case["kern_writer"] = "kernFeatureWriter2"
            # (with variable features the argument is not handed on -- observation O26 -- and the default source's lib key
            # selects the writers: stated both ways)
            for sd_ in ds.sources:
                sd_.font.lib["com.github.googlei18n.ufo2ft.featureWriters"] = [
                    {"class": "KernFeatureWriter", "module": "ufo2ft.featureWriters.kernFeatureWriter2"},
                    {"class": "MarkFeatureWriter"}, {"class": "GdefFeatureWriter"}, {"class": "CursFeatureWriter"}]
        try:
            if multi:
                vfs = getattr(ufo2ft, fn)(ds, variableFeatures=vfeat, **wkw)
                # building only one of the variable fonts (variableFontNames) gives that font, and only it
                only = getattr(ufo2ft, fn)(ds, variableFeatures=vfeat, variableFontNames=["VFWght"], **wkw)
                if sorted(only) != ["VFWght"]:
                    ctx.spec_failure(case, "variableFontNames=['VFWght'] built %r" % sorted(only))
                # (its bytes are NOT compared with the VFWght of the joint build: the masters are converted to quadratics jointly
                # over the sources that are compiled, so fewer sources legitimately give other splines -- sweep seeds 701-715)
                targets = []
                for vname, keep in (("VFFull", [0, 1, 2]), ("VFWght", [0, 2])):
                    b = io.BytesIO(); vfs[vname].save(b)
                    axes_in = [a.axisTag for a in vfs[vname]["fvar"].axes]
                    targets.append((vname, b.getvalue(), [(k, {tagmap[a]: v for a, v in locs[k].items() if tagmap[a] in axes_in}) for k in keep]))
            else:
                vf = getattr(ufo2ft, fn)(ds, variableFeatures=vfeat, **wkw)
                buf = io.BytesIO(); vf.save(buf)
                user = {a.name: a.map_backward for a in ds.axes}
                targets = [("", buf.getvalue(), [(k, {tagmap[a]: user[a](v) for a, v in loc.items()}) for k, loc in enumerate(locs)])]
            if fn.startswith("compileVariableTTF"):
                ref_ds = ufo2ft.compileInterpolatableTTFsFromDS(copy.deepcopy(ds) if False else ds)
            else:
                ref_ds = ufo2ft.compileInterpolatableOTFsFromDS(ds)
            refs = [s.font for s in ref_ds.sources]
        except Exception as e:
            sig = None
            if propagate and vfeat and isinstance(e, TypeError) and "cannot unpack non-iterable NoneType" in str(e) \
                    and "_getAnchor" in traceback.format_exc():
                sig = F14_SIG
            ctx.spec_failure(dict(case, propagateAnchors_filter=propagate),
                             "%s raised %s: %s\n%s" % (fn, type(e).__name__, e, traceback.format_exc()[-1200:]), signature=sig)
            continue
        for vname, vbytes, k, loc in [(vn, vb, k, loc) for vn, vb, kl in targets for k, loc in kl]:
            ctx.count()
            ctx.klass("%s/vfeat=%s%s%s%s" % (fn, vfeat, "/2axes" if two_axes else "", "/propagateAnchors" if propagate else "",
                                             ("/" + vname) if vname else ""))
            ctx.nontriv((fn, i, k, vname, ctx.scale))
            if nonmono:
                ctx.klass("values not monotonic along the axis (two masters agree, the third differs)")
            if diff2x2:
                ctx.klass("component 2x2 differs between masters: %s only" % diff2x2[1])
            c2 = dict(case, master=k, location=loc, variable_font=vname or None)
            try:
                inst = instancer.instantiateVariableFont(TTFont(io.BytesIO(vbytes)), dict(loc))
                b2 = io.BytesIO(); inst.save(b2); inst = TTFont(io.BytesIO(b2.getvalue()))
            except Exception as e:
                ctx.spec_failure(c2, "instantiating at the master location raised %s: %s" % (type(e).__name__, e))
                continue
            ref = refs[k]
            for nm in inst.getGlyphOrder():
                if nm not in ref.getGlyphOrder():
                    continue
                a, b = outline_points(inst, nm), outline_points(ref, nm)
                if len(a) != len(b) or any(abs(p[0] - q[0]) > 1 or abs(p[1] - q[1]) > 1 for p, q in zip(a, b)):
                    ctx.spec_failure(dict(c2, glyph=nm), "outline of %r at master %d's location is more than one unit from the master" % (nm, k))
                    break
                if abs(inst["hmtx"][nm][0] - ref["hmtx"][nm][0]) > 1:
                    ctx.spec_failure(dict(c2, glyph=nm), "advance of %r at master %d's location: %r, master %r" % (nm, k, inst["hmtx"][nm][0], ref["hmtx"][nm][0]))
                    break
            # kerning and anchors of that master's UFO, read from the instance's GPOS
            lay = Layout(inst)
            m = masters[k]
            tags = list(lay.scripts()) or ["DFLT"]
            tag = "latn" if "latn" in tags else tags[0]
            lk = lay.lookups_for(tag, {"kern"})
            allkeys = set()
            for mm in masters:
                allkeys |= set(mm["kerning"])
            def ufo_value(m, g1, g2):
                c1 = next((c for c, mem in m.get("groups", {}).items() if c.startswith("public.kern1.") and g1 in mem), None)
                c2 = next((c for c, mem in m.get("groups", {}).items() if c.startswith("public.kern2.") and g2 in mem), None)
                for key in ((g1, g2), (g1, c2), (c1, g2), (c1, c2)):
                    if None not in key and key in m["kerning"]:
                        return m["kerning"][key]
                return 0
            glyph_pairs = set()
            allgroups = {}
            for mm in masters:
                for gk, gv in mm.get("groups", {}).items():
                    allgroups.setdefault(gk, [])
                    allgroups[gk] += [x for x in gv if x not in allgroups[gk]]
            for (a, b) in allkeys:
                for g1 in (allgroups.get(a) or [a]):
                    for g2 in (allgroups.get(b) or [b]):
                        glyph_pairs.add((g1, g2))
            for (g1, g2) in sorted(glyph_pairs):
                want = geom.ot_round(ufo_value(m, g1, g2))
                got = lay.pair_adjust(lk, g1, g2)[0]
                if got != want:
                    ctx.spec_failure(dict(c2, pair=[g1, g2]), "kerning %s %s at master %d's location is %r, the master UFO has %r" % (g1, g2, k, got, want))
            # without languagesystem statements the mark feature is registered under DFLT only (finding F6, C20)
            lm = lay.lookups_for("DFLT", {"mark", "mkmk"})
            by = {g["name"]: g for g in m["glyphs"]}
            ma = next(a for a in by["acutecomb"]["anchors"] if a[0] == "_top")
            for nm in names:
                if nm == "acutecomb":
                    continue
                ba = next((a for a in by[nm]["anchors"] if a[0] == "top"), None)
                got = lay.mark_attach(lm, nm, "acutecomb")
                if ba is None:
                    continue
                want = (geom.ot_round(ba[1]) - geom.ot_round(ma[1]), geom.ot_round(ba[2]) - geom.ot_round(ma[2]))
                if got is None or tuple(got[:2]) != want:
                    ctx.spec_failure(dict(c2, glyph=nm), "mark attachment on %r at master %d's location is %r, master anchors give %r" % (nm, k, got and got[:2], want))
    ctx.sample({"classes": sorted(ctx.hist)})
