"""C05 -- generated kerning applies the UFO kerning value to every pair, once."""
import io, re, traceback
from fractions import Fraction as Fr
from harness import gterm as G, geom
from harness.fonts import build_font, jsonable
from harness.otl import Layout

PID = "C05"
LEVEL_TEXT = ("Proof + correspondence (PARTIAL for the script-splitting stage): Coq holds the UFO kerning reference (glyph-glyph, "
              "glyph-group, group-glyph, group-group precedence), the writer's group pruning / pair filtering / quantisation, "
              "the KerningPair ordering and the semantics of one compiled lookup (specific pairs first-definition-wins, then the "
              "class subtable); theorems: quantize yields a multiple of the step within half a step, first-definition-wins over "
              "sorted rules, the sort puts rules in specificity order whatever the input order, a lookup in that order gives a pair "
              "the value of the first covering rule, hence of the MOST SPECIFIC covering rule (0 when none covers) for every rule "
              "list in which equally specific covering rules agree; and the CONNECTION TO THE UFO: for every font.groups dictionary "
              "(the writer's own pruning always yields distinct, pairwise disjoint groups -- proved), every kerning dictionary with "
              "one entry per key and group names that are not glyph names, and every pair of glyphs of the font, the lookup compiled "
              "from getKerningPairs' sorted list gives the pair exactly quantize(UFO kerning value) (lookup_is_ufo_kerning). The property itself is an executable Coq predicate (spec_C05) evaluated with vm_compute on what "
              "an independent GPOS interpreter reads from compiled fonts, for every ordered glyph pair under every script tag; "
              "getKerningData's pair list is compared with the Gallina kerning_pairs. The per-script split/merge/registration of "
              "kernFeatureWriter is not transcribed into Coq: its effect is only checked through spec_C05 on generated fonts. "
              "kernFeatureWriter2 is checked through the same predicate and against writer 1 on single-direction fonts."
              " Kerning lookups are registered through ast.addLookupReferences, translated from /repo's source on every run (Generated/FeaGen.v, Fea/LookupRefsTied.v): the default language system and every listed language reach exactly the lookups (theorem about the translated code).")
LEVEL_NOTE = ("Trusted: Coq kernel, hand models, harness, our GPOS interpreter (harness/otl.py, written from the OpenType spec; no "
              "HarfBuzz available), glyph->script classification taken from the real classifyGlyphs (whose bidi instance is compared with the Gallina classify of Mark/Direction.v on random substitution graphs), feaLib/otlLib "
              "compilation. Known finding F10 (rule mixing R and L bidi glyphs is dropped whole) is recognised by signature.")
TECHNIQUE = "Coq model of UFO kerning + lookup semantics with precedence theorem; addLookupReferences translated from source and proved equal to its model; Coq-evaluated spec on an independent GPOS interpreter's reading of compiled fonts"
IMPORTS = "From U2F Require Import Base.Prelude Geometry.Model Kern.Model Kern.Spec."
RULE = ("fonts with 6-14 glyphs drawn from Latin, Cyrillic, Greek, Arabic, Hebrew, Devanagari letters, European and Arabic-Indic "
        "digits, punctuation, a combining mark and unencoded alternates; kern1/kern2 groups (valid partitions, plus empty, "
        "missing-member and rarely overlapping ones); kerning entries at all four precedence levels with zero-valued exceptions, "
        "fractional and negative values; quantisation in {1,5,10}; GDEF mark on/off; languagesystem statements on/off; both "
        "writers, both UFO libraries; every ordered glyph pair x every script tag is evaluated. Non-trivial = the font has a "
        "group-based entry and a more specific exception, or glyphs of two scripts."
        " kernFeatureWriter.mergeScripts on random bucket dictionaries (chains in shuffled order) against its Gallina transcription; a family of three left-to-right scripts sharing groups; Arabic-script glyphs without a strong bidi class.")
ASSUMPTIONS = ["the OpenType pair-positioning semantics implemented in harness/otl.py (first applying subtable per lookup)"]

F10_SIG = "kern-rule-mixes-R-and-L-bidi-glyphs"

REP = [("A", 0x41), ("V", 0x56), ("T", 0x54), ("a", 0x61), ("o", 0x6F), ("period", 0x2E), ("hyphen", 0x2D), ("one", 0x31),
       ("two", 0x32), ("a-cy", 0x430), ("be-cy", 0x431), ("alpha", 0x3B1), ("alef-ar", 0x627), ("beh-ar", 0x628),
       ("one-ar", 0x661), ("alef-hb", 0x5D0), ("bet-hb", 0x5D1), ("ka-deva", 0x915), ("acutecomb", 0x301),
       ("A.alt", None), ("V.sc", None), ("dash.case", None), ("period.alt", None), ("gravecomb", 0x300),
       ("ge-cy", 0x433), ("te-cy", 0x442), ("Gamma", 0x393), ("Tau", 0x3A4), ("comma", 0x2C),
       # glyphs of the Arabic script without a strong bidi class (ET / ON): kerned among themselves they are still right-to-left
       ("percent-ar", 0x66A), ("perthousand-ar", 0x609), ("poeticverse-ar", 0x60E),
       # characters whose only script is Inherited (Zinh, no script extensions): common for kerning, on either side of a pair
       ("lowlinecomb", 0x332), ("zwj", 0x200D),
       # weak bidi classes ES / ET (plus, percent, dollar; hyphen above is ES too): neither left-to-right nor right-to-left
       ("plus", 0x2B), ("percent", 0x25), ("dollar", 0x24)]
MULTI_LTR = ["A", "V", "T", "a-cy", "be-cy", "ge-cy", "te-cy", "alpha", "Gamma", "Tau", "period", "comma", "hyphen"]
VALUES = [Fr(-50), Fr(-51, 2), Fr(10), Fr(0), Fr(29, 4), Fr(-3), Fr(12), Fr(-75), Fr(5, 2)]

FN = ("fun c : (kern_in * list obs_entry * list krule) => let '(i, obs, pairs) := c in "
      "(if list_eqb rule_eqb (model_pairs i) pairs then 1 else 0) + (if spec_C05 i obs then 2 else 0)")


def gen(rng, neutral_alt=False, split_gdef=False):
    n = rng.randint(5, 10)
    fam = rng.random()
    if neutral_alt:
        fam = 0.99
    if split_gdef:
        fam = 0.1
    if fam < 0.35:     # single script family (Latin + common)
        pool = [r for r in REP if r[0] in ("A", "V", "T", "a", "o", "period", "hyphen", "one", "two", "acutecomb", "A.alt", "V.sc")]
    elif fam < 0.5:    # three left-to-right scripts whose glyphs share groups (look-alikes): script buckets overlap in chains
        pool = [r for r in REP if r[0] in MULTI_LTR]
        n = rng.randint(9, 13)
    elif fam < 0.7:    # RTL heavy
        pool = [r for r in REP if r[0] in ("alef-ar", "beh-ar", "one-ar", "alef-hb", "bet-hb", "period", "hyphen", "one", "A", "acutecomb",
                                            "percent-ar", "perthousand-ar", "poeticverse-ar", "lowlinecomb", "zwj", "plus", "percent", "dollar")]
    else:
        pool = list(REP)
    items = rng.sample(pool, min(n, len(pool)))
    names = [x[0] for x in items]
    forced = []
    if split_gdef:
        # marks kerned against bases (both orders, and a mark pair), the mark class declared by hand in the feature file
        for extra in ("A", "V", "acutecomb", "gravecomb"):
            if extra not in names:
                items.append(next(r for r in REP if r[0] == extra)); names.append(extra)
        # (mark against ANOTHER mark in both orders, and a mark against itself)
        forced = [(("A", "acutecomb"), Fr(-55)), (("acutecomb", "V"), Fr(25)), (("acutecomb", "acutecomb"), Fr(10)),
                  (("acutecomb", "gravecomb"), Fr(-40)), (("gravecomb", "acutecomb"), Fr(15))]
    if neutral_alt:
        # a font of both directions in which a bidi-neutral glyph has an unencoded alternate reachable by substitution only:
        # the alternate is neutral like its base, so pairs with it are kerned on either side, in either direction
        for extra in ("A", "alef-ar", "period", "period.alt"):
            if extra not in names:
                items.append(next(r for r in REP if r[0] == extra)); names.append(extra)
        forced = [(("period.alt", "A"), Fr(-30)), (("alef-ar", "period.alt"), Fr(-20)), (("A", "period.alt"), Fr(-15))]
    if 0.5 <= fam < 0.7:
        # always: a right-to-left letter kerned against an Inherited-script glyph on the SECOND side and on the first side
        rtl = [x for x in names if x in ("alef-ar", "beh-ar", "alef-hb", "bet-hb")]
        if rtl:
            for extra in ("lowlinecomb", "zwj"):
                if extra not in names:
                    items.append(next(r for r in REP if r[0] == extra)); names.append(extra)
            forced = [((rtl[0], "lowlinecomb"), Fr(-30)), (("zwj", rtl[-1]), Fr(-20))]
            # ... and against glyphs of the weak bidi classes ES / ET, on either side
            for extra in ("hyphen", "percent", "plus"):
                if extra not in names:
                    items.append(next(r for r in REP if r[0] == extra)); names.append(extra)
            forced += [((rtl[0], "hyphen"), Fr(-40)), (("percent", rtl[-1]), Fr(-25)), ((rtl[-1], "plus"), Fr(15))]
    groups = {}
    for side in ("1", "2"):
        avail = list(names)
        rng.shuffle(avail)
        for gi in range(rng.randint(0, 3) if n < 9 else rng.randint(2, 4)):
            k = rng.randint(1, 3)
            members, avail = avail[:k], avail[k:]
            if not members:
                break
            if rng.random() < 0.15:
                members = members + ["missing.glyph"]
            groups["public.kern%s.G%d" % (side, gi)] = members
        if rng.random() < 0.1:
            groups["public.kern%s.Empty" % side] = []
        if rng.random() < 0.08 and names:
            groups["public.kern%s.Overlap" % side] = [rng.choice(names), rng.choice(names)]
    g1 = [g for g in groups if g.startswith("public.kern1.")]
    g2 = [g for g in groups if g.startswith("public.kern2.")]
    kerning = {}
    for _ in range(rng.randint(1, 10) if n < 9 or rng.random() < 0.3 else rng.randint(8, 18)):
        s1 = rng.choice(g1) if g1 and rng.random() < 0.5 else rng.choice(names + ["ghost"] * (rng.random() < 0.05))
        s2 = rng.choice(g2) if g2 and rng.random() < 0.5 else rng.choice(names)
        kerning[(s1, s2)] = rng.choice(VALUES)
    for k, v in forced:
        kerning.setdefault(k, v)
    # exceptions for existing group entries
    for (s1, s2), v in list(kerning.items()):
        if rng.random() < 0.4:
            a = rng.choice(groups[s1]) if s1 in groups and groups[s1] else s1
            b = rng.choice(groups[s2]) if s2 in groups and groups[s2] else s2
            if a in names and b in names:
                kerning[(a, b)] = rng.choice([Fr(0), Fr(0), Fr(33), Fr(-7)])
    fea = ""
    if rng.random() < 0.4:
        fea = "languagesystem DFLT dflt;\nlanguagesystem latn dflt;\n" + ("languagesystem latn TRK;\n" if rng.random() < 0.3 else "")
        if any(nm.endswith("-ar") for nm in names):
            fea += "languagesystem arab dflt;\n"
    lib = {}
    if "acutecomb" in names and rng.random() < 0.6:
        lib["public.openTypeCategories"] = {"acutecomb": "mark"}
        if "gravecomb" in names:
            lib["public.openTypeCategories"]["gravecomb"] = "mark"
    glyphs = [{"name": nm, "width": 0 if nm == "acutecomb" and rng.random() < 0.7 else 500, "unicodes": [u] if u else [],
               "contours": []} for nm, u in items]
    if fea and "A.alt" in names and "A" in names and rng.random() < 0.5:
        fea += "feature salt { sub A by A.alt; } salt;\n"
    if split_gdef:
        # the user's GDEF table comes in TWO blocks: ligature carets first, the glyph classes (with the mark class) second
        lib.pop("public.openTypeCategories", None)
        bases = " ".join(nm for nm in names if nm not in ("acutecomb", "gravecomb"))
        fea += "table GDEF {\n    LigatureCaretByPos A 100;\n} GDEF;\ntable GDEF {\n    GlyphClassDef [%s], , [acutecomb gravecomb], ;\n} GDEF;\n" % bases
    if neutral_alt:
        if not fea:
            fea = "languagesystem DFLT dflt;\nlanguagesystem latn dflt;\nlanguagesystem arab dflt;\n"
        fea += "feature ss01 { sub period by period.alt; } ss01;\n"
    return {"glyphs": glyphs, "groups": groups, "kerning": kerning, "features": fea, "lib": lib,
            "quantization": rng.choice([1, 1, 1, 5, 10]),
            # the writer's other option: kerning lookups that do NOT skip marks (mark pairs are then kerned in the same lookups)
            "ignoreMarks": rng.random() >= 0.2}


def g_side(s):
    return "(KC %s)" % G.lst([G.s(x) for x in s], "str") if isinstance(s, tuple) else "(KG %s)" % G.s(s)


def run_font(desc, writer_cls, lib):
    import ufo2ft
    from fontTools.ttLib import TTFont
    spy = {}

    class Spy(writer_cls):
        def setContext(self, font, feaFile, compiler=None):
            ctx = super().setContext(font, feaFile, compiler=compiler)
            spy["glyphScripts"] = {g: set(s) for g, s in getattr(ctx, "glyphScripts", {}).items()}
            spy["bidi"] = {k: set(v) for k, v in getattr(ctx, "bidiGlyphs", {}).items()}
            spy["pairs"] = [(p.side1, p.side2, p.value) for p in getattr(ctx.kerning, "pairs", [])] if hasattr(ctx, "kerning") else None
            spy["glyphSet"] = list(ctx.glyphSet.keys())
            return ctx
    Spy.__name__ = writer_cls.__name__
    tt = ufo2ft.compileTTF(build_font(desc, lib), useProductionNames=False,
                           featureWriters=[Spy(quantization=desc["quantization"], ignoreMarks=desc.get("ignoreMarks", True))])
    buf = io.BytesIO(); tt.save(buf); buf.seek(0)
    return TTFont(buf), spy


def observe(tt, names):
    from fontTools import unicodedata as ud
    lay = Layout(tt)
    out = []
    for tag in lay.scripts():
        lookups = lay.lookups_for(tag, {"kern", "dist"})
        script = "DFLT" if tag == "DFLT" else ud.ot_tag_to_script(tag)
        rtl = tag != "DFLT" and ud.script_horizontal_direction(script, "LTR") == "RTL"
        entries = []
        for a in names:
            for b in names:
                xa, xp, nz, other = lay.pair_adjust(lookups, a, b)
                entries.append(((a, b), (xa, xp, nz)))
        out.append((tag, script, rtl, entries))
    return out


def g_obs(obs):
    return G.lst([G.tup(G.tup(G.tup(G.s(tag), G.s(script)), G.b(rtl)),
                        G.lst([G.tup(G.tup(G.s(a), G.s(b)), G.tup(G.tup(G.z(xa), G.z(xp)), G.z(nz)))
                               for (a, b), (xa, xp, nz) in entries], "((str * str) * (Z * Z * Z))"))
                  for tag, script, rtl, entries in obs], "obs_entry")


def bidi_sets(desc):
    """which glyphs are strongly right-to-left (bidi class R, AL) and which count as left-to-right for kerning (L, AN, EN) --
    stated from the Unicode data of the glyphs' code points (and the one GSUB rule the generator writes), independently of
    the writer's own classification"""
    from fontTools import unicodedata as ud
    R, L = set(), set()
    for g in desc["glyphs"]:
        for u in g["unicodes"][:1]:
            b = ud.bidirectional(chr(u))
            if b in ("R", "AL"):
                R.add(g["name"])
            elif b in ("L", "AN", "EN"):
                L.add(g["name"])
    names = {g["name"] for g in desc["glyphs"]}
    if "sub A by A.alt" in desc.get("features", "") and "A.alt" in names and "A" in L:
        L.add("A.alt")
    return R, L


def g_in(desc, spy, names):
    scripts = []
    for g in names:
        s = spy["glyphScripts"].get(g)
        if s is None or s & {"Zyyy", "Zinh"}:
            scripts.append((g, []))
        else:
            scripts.append((g, sorted(s)))
    R, L = (sorted(x) for x in bidi_sets(desc))
    part = set()
    for (s1, s2) in desc["kerning"]:
        for sd in (s1, s2):
            part.update(desc["groups"].get(sd, [sd]))
    strict = not (part & set(L))
    return "(mkKI %s %s %s %s %s %s %s %s)" % (
        G.lst([G.s(n) for n in names], "str"),
        G.lst([G.tup(G.s(k), G.lst([G.s(m) for m in v], "str")) for k, v in desc["groups"].items()], "(str * list str)"),
        G.lst([G.tup(G.tup(G.s(a), G.s(b)), geom.g_q(v)) for (a, b), v in desc["kerning"].items()], "((str * str) * Qc)"),
        geom.g_q(desc["quantization"]),
        G.lst([G.tup(G.s(g), G.lst([G.s(x) for x in s], "str")) for g, s in scripts], "(str * list str)"),
        G.lst([G.s(x) for x in R], "str"), G.lst([G.s(x) for x in L], "str"), G.b(strict))


def f10_explains(desc, spy, a, b):
    R, L = bidi_sets(desc)
    for (s1, s2) in desc["kerning"]:
        m1 = desc["groups"].get(s1, [s1])
        m2 = desc["groups"].get(s2, [s2])
        if a in m1 and b in m2:
            both = set(m1) | set(m2)
            if both & R and both & L:
                return True
    return False


def merge_scripts_section(ctx):
    """kernFeatureWriter.mergeScripts against its Gallina transcription (Kern/Merge.v) and against the statement proved
    about it: merged script sets are pairwise disjoint, every bucket (scripts and pairs) lies inside one of them"""
    from ufo2ft.featureWriters.kernFeatureWriter import mergeScripts
    rng = ctx.subrng("merge")
    POOL = ["Latn", "Cyrl", "Grek", "Armn", "Geor", "Zyyy", "Arab", "Hebr"]
    cases, meta = [], []
    for i in range(ctx.budget(300, 3000)):
        keys = []
        style = rng.random()
        if style < 0.4:
            # a chain a-b, b-c, c-d ... presented in a shuffled order, plus unrelated buckets
            chain = rng.sample(POOL, rng.randint(3, 6))
            keys = [tuple(sorted(chain[j:j + 2])) for j in range(len(chain) - 1)]
            keys += [(x,) for x in rng.sample(POOL, rng.randint(0, 3))]
            rng.shuffle(keys)
        else:
            for _ in range(rng.randint(0, 7)):
                keys.append(tuple(sorted(rng.sample(POOL, rng.choice([1, 1, 2, 2, 3])))))
        if rng.random() < 0.03:
            keys.insert(rng.randrange(len(keys) + 1), ())
        inp, nid = {}, 0
        for k in keys:
            if k not in inp:
                inp[k] = []
            for _ in range(rng.randint(1, 3)):
                inp[k].append(nid); nid += 1
        case = {"kerningPerScript": [[list(k), v] for k, v in inp.items()]}
        try:
            out = mergeScripts({k: list(v) for k, v in inp.items()})
            obs = "(Some %s)" % G.lst([G.tup(G.lst([G.s(x) for x in k], "str"), G.lst([G.z(p) for p in v], "Z")) for k, v in out.items()],
                                      "(list str * list Z)")
            case["result"] = [[list(k), v] for k, v in out.items()]
        except AssertionError:
            obs = "(@None (list (list str * list Z)))"
            case["result"] = "AssertionError"
        g_in = G.lst([G.tup(G.lst([G.s(x) for x in k], "str"), G.lst([G.z(p) for p in v], "Z")) for k, v in inp.items()], "(list str * list Z)")
        cases.append(G.tup(g_in, obs)); meta.append(case)
        ctx.count(); ctx.klass("mergeScripts:%d buckets" % min(len(inp), 6))
        if len(inp) >= 3:
            ctx.nontriv(("merge", tuple(inp)))
    vals = ctx.coq_eval("From U2F Require Import Base.Prelude Kern.Merge.",
                        "fun c : (list (list str * list Z) * option (list (list str * list Z))) => c05_merge (fst c) (snd c)",
                        cases, chunk=300, tag="Merge")
    for v, case in zip(vals, meta):
        if v is None:
            continue
        if not v & 2:
            ctx.spec_failure(case, "mergeScripts: the merged buckets are not pairwise disjoint, or a bucket's scripts/pairs are not all inside "
                                   "one merged bucket (its pairs would be missing under one of its scripts)")
        elif not v & 1:
            ctx.corr_mismatch(case, "Gallina merge_scripts differs from kernFeatureWriter.mergeScripts")


def variable_kern_section(ctx):
    """the property on VARIABLE fonts (both kern writers, glyf and CFF2): masters that list DIFFERENT kerning keys -- a glyph
    pair, a glyph/class or a class/glyph exception present in one master only, the other masters covering the pair by a more
    general rule.  The font instantiated at every master's location applies, to every pair of glyphs, the value UFO kerning
    lookup gives in that master (fontTools.ufoLib.kerning.lookupKerningValue, not ufo2ft code)"""
    import ufo2ft
    from harness import dsgen
    from fontTools.ttLib import TTFont
    from fontTools.varLib import instancer
    from fontTools.ufoLib.kerning import lookupKerningValue
    from ufo2ft.featureWriters.kernFeatureWriter import KernFeatureWriter
    from ufo2ft.featureWriters.kernFeatureWriter2 import KernFeatureWriter as KernFeatureWriter2
    from ufo2ft.featureWriters import MarkFeatureWriter, GdefFeatureWriter, CursFeatureWriter
    rng = ctx.subrng("variable-kern")
    tri = lambda x, k: [[(Fr(x), Fr(0), "line"), (Fr(x + 100 + 5 * k), Fr(0), "line"), (Fr(x + 50), Fr(100), "line")]]
    NAMES = [("A", 0x41), ("V", 0x56), ("W", 0x57), ("T", 0x54), ("o", 0x6F)]
    groups = {"public.kern1.A": ["A"], "public.kern2.V": ["V", "W"], "public.kern1.T": ["T"], "public.kern2.o": ["o"]}
    for i in range(ctx.budget(8, 32)):
        lib = ["ufoLib2", "defcon"][i % 2]
        fn = ["compileVariableTTF", "compileVariableCFF2"][(i // 2) % 2]
        wname, wcls = [("kernFeatureWriter", KernFeatureWriter), ("kernFeatureWriter2", KernFeatureWriter2)][(i // 4) % 2]
        only = i % 3                # which master alone carries the exceptions
        mapped = i % 2 == 1         # a non-identity axis <map>: the middle master sits at design 500 = USER 400
        def master(k):
            kern = {("public.kern1.A", "public.kern2.V"): Fr(-40 - 10 * k), ("public.kern1.T", "public.kern2.o"): Fr(-30 - 7 * k),
                    ("public.kern1.T", "public.kern2.V"): Fr(9 + k)}
            if k == only:
                kern[("A", "V")] = Fr(-100)                         # glyph / glyph
                kern[("public.kern1.T", "o")] = Fr(-55)             # class / glyph
                kern[("T", "public.kern2.V")] = Fr(21)              # glyph / class
            return {"glyphs": [{"name": n, "unicodes": [u], "width": Fr(500 + 10 * k), "components": [], "contours": tri(j, k), "anchors": []}
                               for j, (n, u) in enumerate(NAMES)],
                    "glyphOrder": [n for n, _ in NAMES], "kerning": kern, "groups": dict(groups),
                    "features": "languagesystem DFLT dflt;\nlanguagesystem latn dflt;\n", "lib": {},
                    "info": {"familyName": "Fam", "styleName": "M%d" % k, "unitsPerEm": 1000, "ascender": 800, "descender": -200}}
        masters = [master(k) for k in range(3)]
        case = {"function": fn, "writer": wname, "lib": lib, "master_with_the_exceptions": only, "axis_map": [(100, 100), (400, 500), (900, 900)] if mapped else None,
                "masters": [jsonable({k: (v if k != "kerning" else {"%s|%s" % kk: vv for kk, vv in v.items()}) for k, v in m.items()}) for m in masters]}
        ctx.count(); ctx.klass("variable kerning: exceptions in master %d only/%s/%s" % (only, fn, wname)); ctx.nontriv(("vk", i, ctx.scale))
        try:
            ds, fonts = dsgen.make_designspace(rng, masters, lib, instances=False)
            if mapped:
                ds.axes[0].map = [(100, 100), (400, 500), (900, 900)]
            # (when the layout is built as variable features the featureWriters ARGUMENT is not handed on -- observation O26 --
            # and only the default source's lib key selects the writers: the choice is stated both ways)
            for f in fonts:
                f.lib["com.github.googlei18n.ufo2ft.featureWriters"] = [
                    {"class": "CursFeatureWriter"}, {"class": "KernFeatureWriter", "module": "ufo2ft.featureWriters." + wname},
                    {"class": "MarkFeatureWriter"}, {"class": "GdefFeatureWriter"}]
            if i % 4 == 3:
                # ... and a SPARSE layer source between the masters (it has no kerning of its own: the pair values there are the
                # interpolation of the full masters')
                from fontTools.designspaceLib import SourceDescriptor
                layer = fonts[0].newLayer("Sparse")
                gl = layer.newGlyph("A"); gl.width = 505; fonts[0]["A"].drawPoints(gl.getPointPen())
                sd = SourceDescriptor()
                sd.font, sd.layerName, sd.location, sd.name = fonts[0], "Sparse", {"Weight": 300}, "master.Sparse"
                sd.familyName, sd.styleName = "Fam", "Sparse"
                ds.sources.insert(1, sd)
                ctx.klass("variable kerning: with a sparse layer source")
            vf = getattr(ufo2ft, fn)(ds, useProductionNames=False, featureWriters=[CursFeatureWriter, wcls, MarkFeatureWriter, GdefFeatureWriter])
            b = io.BytesIO(); vf.save(b)
        except Exception as e:
            ctx.spec_failure(case, "%s raised %s: %s\n%s" % (fn, type(e).__name__, e, traceback.format_exc()[-1000:]))
            continue
        g1 = {g: gr for gr, ms in groups.items() if gr.startswith("public.kern1.") for g in ms}
        g2 = {g: gr for gr, ms in groups.items() if gr.startswith("public.kern2.") for g in ms}
        for k, wght in enumerate([100, 400 if mapped else 500, 900]):
            inst = instancer.instantiateVariableFont(TTFont(io.BytesIO(b.getvalue())), {"wght": wght})
            b2 = io.BytesIO(); inst.save(b2)
            lay = Layout(TTFont(io.BytesIO(b2.getvalue())))
            lk = lay.lookups_for("latn", {"kern"})
            kern = {kk: int(v) for kk, v in masters[k]["kerning"].items()}
            bad = []
            for a, _ in NAMES:
                for c, _ in NAMES:
                    want = lookupKerningValue((a, c), kern, groups, glyphToFirstGroup=g1, glyphToSecondGroup=g2)
                    got = lay.pair_adjust(lk, a, c)[0]
                    if got != want:
                        bad.append((a, c, got, want))
            if bad:
                ctx.spec_failure(dict(case, master=k, pairs=bad[:6]),
                                 "at master %d's location the pair (%s, %s) is adjusted by %r; UFO kerning lookup in that master gives %r (%d pairs differ)" % (
                                     (k,) + bad[0] + (len(bad),)))
                break
        if i % 4 == 3:
            # at the sparse source's location (design 300, half way between the first two masters): the blend of their values
            inst = instancer.instantiateVariableFont(TTFont(io.BytesIO(b.getvalue())), {"wght": 250 if mapped else 300})
            b2 = io.BytesIO(); inst.save(b2)
            lay = Layout(TTFont(io.BytesIO(b2.getvalue())))
            lk = lay.lookups_for("latn", {"kern"})
            k0, k1 = ({kk: int(v) for kk, v in masters[m]["kerning"].items()} for m in (0, 1))
            bad = []
            for a, _ in NAMES:
                for c, _ in NAMES:
                    w0 = lookupKerningValue((a, c), k0, groups, glyphToFirstGroup=g1, glyphToSecondGroup=g2)
                    w1 = lookupKerningValue((a, c), k1, groups, glyphToFirstGroup=g1, glyphToSecondGroup=g2)
                    got = lay.pair_adjust(lk, a, c)[0]
                    if abs(got - (w0 + w1) / 2) > 1:
                        bad.append((a, c, got, (w0 + w1) / 2))
            if bad:
                ctx.spec_failure(dict(case, location="the sparse layer source's (half way between masters 0 and 1)", pairs=bad[:6]),
                                 "at the sparse source's location the pair (%s, %s) is adjusted by %r; the blend of the two neighbouring masters is %r (%d pairs differ)" % (
                                     bad[0] + (len(bad),)))


F52_SIG = "legacy-kern-writer-declared-tag-not-derived-from-a-unicode-script"


def declared_script_section(ctx):
    """a script that the feature file DECLARES (languagesystem) and whose glyphs carry mark anchors -- so the script has a record
    in GPOS -- but that has no kerning of its own: kerning between script-neutral glyphs (punctuation, digits) applies in its
    runs too, under that script's language system, with both writers"""
    import ufo2ft
    from fontTools.ttLib import TTFont
    from ufo2ft.featureWriters.kernFeatureWriter import KernFeatureWriter
    from ufo2ft.featureWriters.kernFeatureWriter2 import KernFeatureWriter as KernFeatureWriter2
    from ufo2ft.featureWriters import MarkFeatureWriter, GdefFeatureWriter, CursFeatureWriter
    tri = [[(Fr(0), Fr(0), "line"), (Fr(50), Fr(0), "line"), (Fr(50), Fr(50), "line")]]
    # (dev2, khmr: scripts that shapers kern through 'dist' -- the common kerning reaches them there, F47)
    EXTRA = [("grek", [("alpha", 0x3B1), ("beta", 0x3B2)]), ("cyrl", [("a-cy", 0x430), ("be-cy", 0x431)]), ("hebr", [("alef-hb", 0x5D0), ("bet-hb", 0x5D1)]),
             ("dev2", [("ka-deva", 0x915), ("kha-deva", 0x916)]), ("khmr", [("ka-khmer", 0x1780), ("kha-khmer", 0x1781)]),
             # declared tags that are not the tag fontTools derives from a Unicode script: musical symbols (their characters are
             # script-neutral), Hangul Jamo (Unicode script Hang -> 'hang'), the old Indic tag next to no 'dev2'
             ("musc", [("gclef", 0x1D11E), ("quarternote", 0x1D15F)]), ("jamo", [("kiyeok-jamo", 0x1100), ("a-jamo", 0x1161)]),
             ("deva", [("ka-deva", 0x915), ("kha-deva", 0x916)])]
    for i in range(ctx.budget(2 * len(EXTRA), 4 * len(EXTRA))):
        lib = ["ufoLib2", "defcon"][(i + i // (2 * len(EXTRA))) % 2]
        wname, wcls = [("kernFeatureWriter", KernFeatureWriter), ("kernFeatureWriter2", KernFeatureWriter2)][(i // len(EXTRA)) % 2]
        tag, letters = EXTRA[i % len(EXTRA)]
        glyphs = [{"name": n, "unicodes": [u], "width": 500, "contours": tri, "components": [], "anchors": [("top", Fr(250), Fr(600))] if a else []}
                  for n, u, a in [("A", 0x41, True), ("V", 0x56, False), ("period", 0x2E, False), ("quotesingle", 0x27, False), ("one", 0x31, False)]
                  + [(n, u, True) for n, u in letters]]
        glyphs.append({"name": "acutecomb", "unicodes": [0x301], "width": 0, "contours": tri, "components": [], "anchors": [("_top", Fr(0), Fr(480))]})
        names = [g["name"] for g in glyphs]
        desc = {"glyphs": glyphs, "glyphOrder": names, "groups": {},
                "kerning": {("A", "V"): Fr(-40), ("period", "quotesingle"): Fr(-55), ("one", "period"): Fr(12)},
                "features": "languagesystem DFLT dflt;\nlanguagesystem latn dflt;\nlanguagesystem %s dflt;\n" % tag,
                "lib": {"public.openTypeCategories": dict({n: "base" for n in names}, acutecomb="mark")}}
        case = {"font": jsonable({k: (v if k != "kerning" else {"%s|%s" % kk: vv for kk, vv in v.items()}) for k, v in desc.items()}),
                "lib": lib, "writer": wname, "declared_script_without_kerning": tag}
        ctx.count(); ctx.klass("declared script without kerning of its own: %s/%s" % (tag, wname)); ctx.nontriv(("dsk", i, ctx.scale))
        try:
            tt = ufo2ft.compileTTF(build_font(desc, lib), useProductionNames=False,
                                   featureWriters=[CursFeatureWriter, wcls, MarkFeatureWriter, GdefFeatureWriter])
            b = io.BytesIO(); tt.save(b); lay = Layout(TTFont(io.BytesIO(b.getvalue())))
        except Exception as e:
            ctx.spec_failure(case, "compileTTF raised %s: %s\n%s" % (type(e).__name__, e, traceback.format_exc()[-1000:]))
            continue
        for t in ("DFLT", "latn", tag):
            if t not in lay.scripts():
                continue            # (no record of its own: the shaper takes DFLT's)
            lk = lay.lookups_for(t, {"kern", "dist"})
            for (a, c), v in (("period", "quotesingle"), -55), (("one", "period"), 12):
                got = lay.pair_adjust(lk, a, c)[0]
                if got != v:
                    from fontTools import unicodedata as _ud
                    # (F52: the legacy writer registers its lookups under the tags it derives from Unicode scripts only)
                    legacy_noncanonical = wname == "kernFeatureWriter2" and t == tag and got == 0 and \
                        t not in _ud.ot_tags_from_script(_ud.ot_tag_to_script(t) or "Zzzz")
                    ctx.spec_failure(dict(case, script=t, pair=[a, c]), "under %s the pair (%s, %s) of script-neutral glyphs is adjusted by %r, the UFO says %r" % (t, a, c, got, v),
                                     signature=F52_SIG if legacy_noncanonical else None)


def language_section(ctx):
    """language systems: a script declared with several languages, the default one first, last, in the middle or not at all;
    under EVERY language system the compiled GPOS holds for the script, the pair gets the UFO value (both writers)"""
    import ufo2ft
    from fontTools.ttLib import TTFont
    from ufo2ft.featureWriters.kernFeatureWriter import KernFeatureWriter
    from ufo2ft.featureWriters.kernFeatureWriter2 import KernFeatureWriter as KernFeatureWriter2
    from ufo2ft.featureWriters import MarkFeatureWriter, GdefFeatureWriter, CursFeatureWriter
    tri = [[(Fr(0), Fr(0), "line"), (Fr(50), Fr(0), "line"), (Fr(50), Fr(50), "line")]]
    ORDERS = [["latn dflt", "latn TRK"], ["latn TRK", "latn dflt"], ["latn TRK", "latn AZE", "latn dflt"], ["latn AZE", "latn dflt", "latn TRK"],
              ["latn TRK"], ["latn dflt", "grek ELL", "grek dflt", "latn TRK"]]
    for i in range(ctx.budget(2 * len(ORDERS), 4 * len(ORDERS))):
        order = ORDERS[i % len(ORDERS)]
        wname, wcls = [("kernFeatureWriter", KernFeatureWriter), ("kernFeatureWriter2", KernFeatureWriter2)][(i // len(ORDERS)) % 2]
        lib = ["ufoLib2", "defcon"][(i + i // (2 * len(ORDERS))) % 2]
        glyphs = [{"name": n, "unicodes": [u], "width": 500, "contours": tri, "components": [], "anchors": [("top", Fr(250), Fr(600))] if a else []}
                  for n, u, a in [("A", 0x41, True), ("V", 0x56, False), ("period", 0x2E, False), ("alpha", 0x3B1, True), ("beta", 0x3B2, False)]]
        glyphs.append({"name": "acutecomb", "unicodes": [0x301], "width": 0, "contours": tri, "components": [], "anchors": [("_top", Fr(0), Fr(480))]})
        names = [g["name"] for g in glyphs]
        kerning = {("A", "V"): Fr(-40), ("period", "A"): Fr(10), ("V", "period"): Fr(-25), ("alpha", "beta"): Fr(-31), ("period", "period"): Fr(7)}
        desc = {"glyphs": glyphs, "glyphOrder": names, "groups": {}, "kerning": kerning,
                "features": "languagesystem DFLT dflt;\n" + "".join("languagesystem %s;\n" % o for o in order),
                "lib": {"public.openTypeCategories": dict({n: "base" for n in names}, acutecomb="mark")}}
        case = {"font": jsonable({k: (v if k != "kerning" else {"%s|%s" % kk: vv for kk, vv in v.items()}) for k, v in desc.items()}),
                "lib": lib, "writer": wname, "languagesystems": order}
        ctx.count(); ctx.klass("language systems %r/%s" % (order, wname)); ctx.nontriv(("lang", i, ctx.scale))
        try:
            tt = ufo2ft.compileTTF(build_font(desc, lib), useProductionNames=False,
                                   featureWriters=[CursFeatureWriter, wcls, MarkFeatureWriter, GdefFeatureWriter])
            b = io.BytesIO(); tt.save(b); lay = Layout(TTFont(io.BytesIO(b.getvalue())))
        except Exception as e:
            ctx.spec_failure(case, "compileTTF raised %s: %s\n%s" % (type(e).__name__, e, traceback.format_exc()[-1000:]))
            continue
        members = {"latn": {"A", "V", "period"}, "grek": {"alpha", "beta", "period"}, "DFLT": {"period"}}
        for t, langs in lay.scripts().items():
            for lang in langs:
                lk = lay.lookups_for(t, {"kern", "dist"}, lang)
                for (a, c), v in kerning.items():
                    if a in members.get(t, ()) and c in members.get(t, ()):
                        got = lay.pair_adjust(lk, a, c)[0]
                        if got != v:
                            ctx.spec_failure(dict(case, script=t, language=lang, pair=[a, c]),
                                             "under %s/%s the pair (%s, %s) is adjusted by %r, the UFO says %r" % (t, lang, a, c, got, v))


F41_SIG = "mark-known-only-from-anchors-kerned"


def mark_kern_section(ctx):
    """a kerning pair against a MARK, the marks being declared (a) in public.openTypeCategories, (b) there AND next to a
    hand-written GDEF table that holds ligature carets only (no GlyphClassDef), (c) in the GDEF table's GlyphClassDef, (d) nowhere
    (the compiled GDEF then infers them from the mark feature: known finding F41): the pair's value is applied, with both writers"""
    import ufo2ft
    from fontTools.ttLib import TTFont
    from ufo2ft.featureWriters.kernFeatureWriter import KernFeatureWriter
    from ufo2ft.featureWriters.kernFeatureWriter2 import KernFeatureWriter as KernFeatureWriter2
    from ufo2ft.featureWriters import MarkFeatureWriter, GdefFeatureWriter, CursFeatureWriter
    tri = [[(Fr(0), Fr(0), "line"), (Fr(50), Fr(0), "line"), (Fr(50), Fr(50), "line")]]
    CATS = {"acutecomb": "mark", "A": "base", "V": "base", "f_i": "ligature"}
    VARIANTS = [("categories", CATS, ""), ("categories + GDEF table with carets only", CATS, "table GDEF {\n    LigatureCaretByPos f_i 300;\n} GDEF;\n"),
                ("GDEF table with classes", None, "table GDEF {\n    GlyphClassDef [A V], [f_i], [acutecomb], ;\n} GDEF;\n"),
                ("declared nowhere", None, "")]
    for i in range(ctx.budget(2 * len(VARIANTS), 4 * len(VARIANTS))):
        label, cats, fea = VARIANTS[i % len(VARIANTS)]
        wname, wcls = [("kernFeatureWriter", KernFeatureWriter), ("kernFeatureWriter2", KernFeatureWriter2)][(i // len(VARIANTS)) % 2]
        lib = ["ufoLib2", "defcon"][(i // (2 * len(VARIANTS))) % 2]
        glyphs = [{"name": "A", "unicodes": [0x41], "width": 500, "contours": tri, "components": [], "anchors": [("top", Fr(250), Fr(700))]},
                  {"name": "V", "unicodes": [0x56], "width": 500, "contours": tri, "components": [], "anchors": []},
                  {"name": "f_i", "unicodes": [0xFB01], "width": 600, "contours": tri, "components": [], "anchors": []},
                  {"name": "acutecomb", "unicodes": [0x301], "width": 0, "contours": tri, "components": [], "anchors": [("_top", Fr(0), Fr(480))]}]
        desc = {"glyphs": glyphs, "glyphOrder": [g["name"] for g in glyphs], "groups": {}, "features": "languagesystem DFLT dflt;\n" + fea,
                "kerning": {("A", "acutecomb"): Fr(-77), ("A", "V"): Fr(-40), ("acutecomb", "V"): Fr(13)}, "lib": {"public.openTypeCategories": cats} if cats else {}}
        case = {"font": jsonable({k: (v if k != "kerning" else {"%s|%s" % kk: vv for kk, vv in v.items()}) for k, v in desc.items()}),
                "lib": lib, "writer": wname, "marks_declared": label}
        ctx.count(); ctx.klass("kerning against a mark, marks declared: %s/%s" % (label, wname)); ctx.nontriv(("mk", i, ctx.scale))
        try:
            tt = ufo2ft.compileTTF(build_font(desc, lib), useProductionNames=False,
                                   featureWriters=[CursFeatureWriter, wcls, MarkFeatureWriter, GdefFeatureWriter])
            b = io.BytesIO(); tt.save(b); lay = Layout(TTFont(io.BytesIO(b.getvalue())))
        except Exception as e:
            ctx.spec_failure(case, "compileTTF raised %s: %s\n%s" % (type(e).__name__, e, traceback.format_exc()[-1000:]))
            continue
        lk = lay.lookups_for("DFLT", {"kern"})
        for (a, c), v in desc["kerning"].items():
            got = lay.pair_adjust(lk, a, c)[0]
            if got != int(v):
                ctx.spec_failure(dict(case, pair=[a, c]), "the pair (%s, %s) is adjusted by %r, the UFO says %r (marks declared: %s)" % (a, c, got, int(v), label),
                                 signature=F41_SIG if label == "declared nowhere" and "acutecomb" in (a, c) else None)


def explore(ctx):
    merge_scripts_section(ctx)
    mark_kern_section(ctx)
    declared_script_section(ctx)
    language_section(ctx)
    variable_kern_section(ctx)
    # the bidi classification of glyphs (cmap + GSUB closure with the neutral glyphs taken out + designspace-rule
    # substitutes) is util.classifyGlyphs with the writer's bidi type: the same Gallina model as C18's, other property
    from harness.props.c18 import classify_model_section
    from ufo2ft.featureWriters.kernFeatureWriter import unicodeBidiType
    classify_model_section(ctx, func=unicodeBidiType, keys=(("L", "L"), ("R", "R")), tag="bidi classify",
                           chars={"L": [0x61, 0x62, 0x63, 0x31], "R": [0x627, 0x628, 0x5D0], "N": [0x2E, 0x2C, 0x2B]})
    from ufo2ft.featureWriters.kernFeatureWriter import KernFeatureWriter
    from ufo2ft.featureWriters.kernFeatureWriter2 import KernFeatureWriter as KernFeatureWriter2
    rng = ctx.subrng("kern")
    cases, meta = [], []
    for i in range(ctx.budget(70, 600)):
        desc = gen(rng, neutral_alt=(i % 7 == 3), split_gdef=(i % 7 == 5))
        if i % 7 == 5:
            ctx.klass("hand-written GDEF in two table blocks (classes in the second) + mark kerning")
        if i % 7 == 3:
            ctx.klass("both directions + unencoded alternate of a neutral glyph, kerned")
        lib = rng.choice(["ufoLib2", "defcon"])
        case = {"font": jsonable({k: (v if k != "kerning" else {"%s|%s" % kk: vv for kk, vv in v.items()}) for k, v in desc.items()}),
                "lib": lib}
        names = [g["name"] for g in desc["glyphs"]]
        results = {}
        from fontTools import unicodedata as ud
        import unicodedata as pyud
        # "single-direction font" for the writer-agreement clause: no code point with a right-to-left script
        # extension and no R / AL / AN bidi type (Arabic-Indic digits are Script=Common but belong to RTL scripts)
        single_dir = all(
            all(ud.script_horizontal_direction(sc, "LTR") == "LTR" for sc in ud.script_extension(chr(u)) - {"Zyyy", "Zinh"})
            and pyud.bidirectional(chr(u)) not in ("R", "AL", "AN")
            for g in desc["glyphs"] for u in g["unicodes"])
        writers = [("kernFeatureWriter", KernFeatureWriter)]
        if single_dir:
            writers.append(("kernFeatureWriter2", KernFeatureWriter2))
            ctx.klass("single-direction font (writer 2 also checked)")
        for wname, wcls in writers:
            try:
                tt, spy = run_font(desc, wcls, lib)
            except AssertionError as e:
                ctx.klass("rejected:AssertionError(" + wname + ")")
                continue
            except Exception as e:
                ctx.spec_failure(dict(case, writer=wname), "compile raised %s: %s\n%s" % (type(e).__name__, e, traceback.format_exc()[-1200:]))
                continue
            obs = observe(tt, names)
            if wname == "kernFeatureWriter":
                spy1 = spy
            elif "kernFeatureWriter" not in results:
                continue
            else:
                # writer 2 classifies glyphs by bidi type only; the script/bidi facts the property is stated
                # over are those of classifyGlyphs as collected by writer 1
                spy = dict(spy1, pairs=None)
            results[wname] = (obs, spy)
            ctx.count()
            ctx.klass(wname)
            if not desc.get("ignoreMarks", True):
                ctx.klass("ignoreMarks=False")
            if wname == "kernFeatureWriter":
                pairs = spy["pairs"] or []
                g_pairs = G.lst(["(mkR %s %s %s)" % (g_side(s1), g_side(s2), geom.g_q(Fr(v))) for s1, s2, v in pairs], "krule")
            else:
                g_pairs = None
            cases.append((g_in(desc, spy, names), g_obs(obs), g_pairs))
            meta.append((dict(case, writer=wname), desc, spy, obs))
            multi = len({x for s in spy["glyphScripts"].values() for x in s} - {"Zyyy", "Zinh"}) > 1
            if multi or any(k[0] in desc["groups"] or k[1] in desc["groups"] for k in desc["kerning"]):
                ctx.nontriv(("k", i, wname, ctx.scale))
        # both writers agree on single-direction fonts
        if len(results) == 2:
            (o1, spy1), (o2, _) = results["kernFeatureWriter"], results["kernFeatureWriter2"]
            gsc = spy1["glyphScripts"]
            if True:
                def elig(tag_script, g):
                    s = gsc.get(g)
                    return s is None or bool(s & {"Zyyy", "Zinh"}) or (tag_script in s)
                d1 = {(t, p): v for t, sc, _, es in o1 for p, v in es if sc != "DFLT" and elig(sc, p[0]) and elig(sc, p[1])}
                d2 = {(t, p): v for t, _, _, es in o2 for p, v in es}
                for key in d1:
                    if key in d2 and d1[key][:2] != d2[key][:2]:
                        ctx.spec_failure(case, "the two kerning writers disagree on a left-to-right font: %r -> %r vs %r" % (key, d1[key], d2[key]))
                        break
    # writer-1 cases carry the structural pair list; writer-2 cases get the model's own list (bit 0 trivially true)
    terms = []
    for gi, go, gp in cases:
        if gp is None:
            terms.append("(let i := %s in (i, %s, model_pairs i))" % (gi, go))
        else:
            terms.append(G.tup(gi, go, gp))
    vals = ctx.coq_eval(IMPORTS, FN, terms, chunk=6, tag="Kern")
    for v, gterms, (case, desc, spy, obs) in zip(vals, cases, meta):
        if v is None:
            continue
        if not v & 2:
            txt = ctx.coq_show(IMPORTS, "flat_map (check_obs %s) %s" % (gterms[0], gterms[1]), tag="Why")
            bad = []
            for m in re.finditer(r"\((\d+),\s*\(\[([\d;\s]*)\],\s*\[([\d;\s]*)\]\)\)", txt):
                dec = lambda t: "".join(chr(int(x)) for x in t.replace("\n", " ").split(";") if x.strip())
                bad.append((int(m.group(1)), dec(m.group(2)), dec(m.group(3))))
            bad = sorted(set(bad))
            # F10 drops a whole rule; the pair then gets 0 (code 1) or the value of a less specific rule that the
            # dropped one was an exception to (code 2)
            unexplained = [x for x in bad if not (x[0] in (1, 2) and case["writer"] == "kernFeatureWriter" and f10_explains(desc, spy, x[1], x[2]))]
            codes = {1: "eligible pair does not get the UFO value", 2: "value is neither 0 nor the UFO value",
                     3: "adjustment applied by more than one lookup", 4: "x-placement wrong for the script direction"}
            if bad and not unexplained:
                ctx.spec_failure(dict(case, pairs=bad[:6]), "pairs %r miss the UFO value: a rule covering them mixes R and L bidi glyphs and was dropped whole" % (bad[:4],),
                                 signature=F10_SIG)
            else:
                ctx.spec_failure(dict(case, pairs=(unexplained or bad)[:8], coq_output=None if bad else txt[-1500:]),
                                 "spec_C05 false: " + "; ".join("%s %s: %s" % (a, b, codes.get(c, c)) for c, a, b in (unexplained or bad)[:5]))
        elif not v & 1:
            ctx.corr_mismatch(case, "Gallina kerning_pairs differs from getKerningData().pairs")
    if meta:
        c0 = meta[0]
        ctx.sample({"writer": c0[0]["writer"], "groups": c0[1]["groups"], "kerning": c0[0]["font"]["kerning"],
                    "script_tags": [o[0] for o in c0[3]]})
