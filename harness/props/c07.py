"""C07 -- compiling never modifies the caller's sources unless inplace is requested."""
import os, traceback
from fractions import Fraction as Fr
from harness import snap, dsgen
from harness.fonts import build_font, gen_component_font, jsonable

PID = "C07"
LEVEL_TEXT = ("PARTIAL. Proved in Coq on a heap model with object identity: a glyph set built by from_layer(copy = not inplace) holds "
              "only freshly allocated objects, hence no sequence of writes addressed through the glyph set -- any filters, any "
              "number of stages -- changes a source object (copy_isolation); with copy = false the write does reach the source, and "
              "a writer that addresses a source object directly is visible (the shape of every real violation). Whether the real "
              "code has such direct writers is aliasing inside CPython and cannot be exhibited by a pure model: it is measured on "
              "the implementation -- deep structural snapshots of every source font (all layers, glyphs, libs, info, kerning, "
              "groups, features) and of the designspace document before vs after each of the nine compile functions, after one and "
              "two calls, for returns and raises, generated fonts and repository fixtures, both UFO libraries. Any difference not "
              "matching a KNOWN_FINDINGS signature is a violation with the source as replay.")
LEVEL_NOTE = ("Trusted: Coq kernel (for the copy-discipline theorem), the snapshot code (harness/snap.py). Known findings: F1 (MATH "
              "constants popped from ufo.lib; the one-line repair breaks a pinned test), F4 (colour layers), F5 (dotted circle).")
TECHNIQUE = "Coq theorem on a heap model of the copy discipline + before/after deep snapshots of all sources over the nine compile functions"
RULE = ("generated fonts and 2-3 master families x {compileOTF, compileTTF, compileInterpolatableTTFs, "
        "compileInterpolatable{TTFs,OTFs}FromDS, compileVariable{TTF,CFF2,TTFs,CFF2s}} x options {removeOverlaps, flattenComponents, "
        "skipExportGlyphs by argument/lib, lib filters (propagateAnchors, transformations, decomposeTransformedComponents, "
        "dottedCircle), production names, variableFeatures} x both UFO libraries, plus fixtures (TestFont, TestMathFont, ColorTest, "
        "DottedCircleTest, MutatorSans, NestedComponents, SkipExportGlyphsTest, TestVarfea ...) and inputs that raise midway. "
        "Every case is compiled twice. Non-trivial = the compile ran filters beyond the defaults or several sources."
        " Format-5 documents with variable-font public.fontInfo overrides, unnamed / same-named sources, skip lists naming a composite together with its bases.")
ASSUMPTIONS = ["a change invisible to harness/snap.py (guidelines, images, data directory) is not detected"]
DATA = os.path.join(os.environ.get("UFO2FT_REPO", "/repo"), "tests", "data")
FILTERS_KEY = "com.github.googlei18n.ufo2ft.filters"

SIGS = [
    ("MATH-constants-popped-from-source-lib", lambda p: "com.nagwa.MATHPlugin.constants" in p),
    ("colour-layer-filter-writes-source-font", lambda p: "colorLayers" in p or "/layers/color" in p or "/layers/glyphs.color" in p or "/layers/color1" in p),
    ("dotted-circle-filter-writes-source-font", lambda p: "public.openTypeCategories" in p or p.startswith("/features")),
]


def classify(diffs):
    for sig, pred in SIGS:
        if diffs and all(pred(d) for d in diffs):
            return sig
    return None


def load(path, lib):
    if lib == "ufoLib2":
        import ufoLib2
        return ufoLib2.Font.open(path)
    import defcon
    return defcon.Font(path)


def snapshot_all(fonts, ds):
    return {"fonts": [snap.font_snapshot(f) for f in fonts], "ds": snap.designspace_snapshot(ds) if ds is not None else None}


def run_case(ctx, case, fonts, ds, call, expect_raise=False, nontriv=True):
    before = snapshot_all(fonts, ds)
    ctx.count()
    if nontriv:
        ctx.nontriv(repr(sorted((k, str(v)) for k, v in case.items() if k != "font"))[:300] + str(ctx.evaluations))
    for attempt in (1, 2):
        raised = None
        try:
            call()
        except Exception as e:
            raised = e
            if not expect_raise and attempt == 1:
                ctx.klass("raised:" + type(e).__name__)
                ctx.notes.setdefault("raised", {}).setdefault(type(e).__name__ + ": " + str(e)[:160], []).append(
                    "%s %s" % (case.get("function"), case.get("options", case.get("fixture"))))
        after = snapshot_all(fonts, ds)
        if after != before:
            d = snap.diff(before, after)
            sig = classify(d)
            ctx.spec_failure(dict(case, call_number=attempt, raised=repr(raised) if raised else None, source_diff=d[:8]),
                             "sources differ after call %d: %s" % (attempt, "; ".join(d[:4])), signature=sig)
            return
        if raised is not None and not expect_raise:
            # a compile that fails on a valid input is not C07's subject; recorded, sources were intact
            case = dict(case, note="raised %r" % raised)
            return


def filter_section(ctx):
    """every glyph filter ufo2ft ships, named in the font's lib (before and after decomposition), one at a time and in pairs,
    over one purpose-built font that gives each filter work to do: composites (nested, transformed), overlapping contours,
    marks and bases with anchors, a U+25CC glyph that lacks the anchors the marks need (even cases) or no such glyph (odd
    cases), cubic curves; TTF and OTF, both UFO libraries -- the caller's font is the same before and after"""
    import ufo2ft
    sq = lambda x, y, d: [[(Fr(x), Fr(y), "line"), (Fr(x + d), Fr(y), "line"), (Fr(x + d), Fr(y + d), "line"), (Fr(x), Fr(y + d), "line")]]
    cub = [[(Fr(0), Fr(0), "line"), (Fr(100), Fr(0), None), (Fr(200), Fr(100), None), (Fr(200), Fr(200), "curve"), (Fr(0), Fr(200), "line")]]
    filters = [("cubicToQuadratic", {}), ("decomposeComponents", {}), ("decomposeTransformedComponents", {}), ("dottedCircle", {}),
               ("flattenComponents", {}), ("propagateAnchors", {}), ("removeOverlaps", {}), ("reverseContourDirection", {}),
               ("sortContours", {}), ("transformations", {"kwargs": {"OffsetX": 10, "ScaleY": 50}}),
               ("skipExportGlyphs", {"kwargs": {"skipExportGlyphs": ["a"]}})]
    n = ctx.budget(22, 88)
    for i in range(n):
        lib = ["ufoLib2", "defcon"][i % 2]
        fn = ["compileTTF", "compileOTF"][(i // 2) % 2]
        name, extra = filters[i % len(filters)]
        pre = (i // len(filters)) % 2 == 0
        glyphs = [{"name": "a", "unicodes": [0x61], "width": 500, "contours": sq(50, 0, 400) + sq(250, 200, 300) + cub, "components": [],
                   "anchors": [("top", Fr(250), Fr(520)), ("bottom", Fr(250), Fr(-10))]},
                  {"name": "acutecomb", "unicodes": [0x301], "width": 0, "contours": sq(-60, 550, 80), "components": [],
                   "anchors": [("_top", Fr(-20), Fr(520)), ("top", Fr(-20), Fr(700))]},
                  {"name": "dotbelowcomb", "unicodes": [0x323], "width": 0, "contours": sq(-40, -150, 60), "components": [],
                   "anchors": [("_bottom", Fr(-10), Fr(-10))]},
                  {"name": "aacute", "unicodes": [0xE1], "width": 500, "contours": [], "anchors": [],
                   "components": [("a", (1, 0, 0, 1, 0, 0)), ("acutecomb", (Fr(1, 2), 0, 0, 1, 270, 0))]},
                  {"name": "aacutedot", "unicodes": [0x1EA1], "width": 500, "contours": [], "anchors": [],
                   "components": [("aacute", (1, 0, 0, 1, 0, 0)), ("dotbelowcomb", (1, 0, 0, 1, 250, 0))]}]
        if i % 2 == 0:
            glyphs.append({"name": "dottedcircle", "unicodes": [0x25CC], "width": 600, "contours": sq(100, 100, 400), "components": [],
                           "anchors": [("bottom", Fr(300), Fr(-20))] if i % 4 == 2 else []})
        flt = [dict({"name": name, "pre": pre}, **extra)]
        if i >= 2 * len(filters):
            n2, e2 = filters[(i * 7 + 3) % len(filters)]
            flt.append(dict({"name": n2, "pre": not pre}, **e2))
        desc = {"glyphs": glyphs, "glyphOrder": [g["name"] for g in glyphs], "lib": {FILTERS_KEY: flt},
                "features": "languagesystem DFLT dflt;\n"}
        if i % 2 == 0 and (i // len(filters)) % 2 == 1:
            # the font's own U+25CC glyph is not exported: it is not in the glyph set the filters work on
            desc["lib"]["public.skipExportGlyphs"] = ["dottedcircle"]
        font = build_font(desc, lib)
        case = {"function": fn, "lib": lib, "filters": jsonable(flt), "font": jsonable(desc)}
        ctx.klass("lib filter:%s%s" % (name, "/pre" if pre else ""))
        run_case(ctx, case, [font], None, lambda: getattr(ufo2ft, fn)(font))


def rich_lib(names, cps, i):
    """nested, mutable font-lib entries that the table builders read -- dicts of dicts, lists -- naming EVERY glyph (so also the ones
    a skip list removes) and a glyph that does not exist: a builder that prunes or sorts what it reads edits the caller's lib"""
    n = len(names)
    lib = {"public.unicodeVariationSequences": {"FE00": {"%04X" % cps[k]: names[(k + 1) % n] for k in range(n)},
                                                 "FE01": {"%04X" % cps[0]: "ghost.glyph", "%04X" % cps[-1]: names[-1]}},
           "public.openTypeMeta": {"dlng": ["Latn"], "slng": ["Latn", "Grek"]}}
    if i % 2:
        lib["public.openTypeCategories"] = {names[k]: ["base", "ligature", "base"][k % 3] for k in range(n)}
    if i % 3 == 0:
        lib["public.postscriptNames"] = {names[0]: "ps.zero", names[-1]: "ps.last", "ghost.glyph": "ps.ghost"}
    return lib


def explore(ctx):
    import ufo2ft
    filter_section(ctx)
    # (lib filters of a designspace build that reach glyphs through the interpolated layers, after a stale / pruning / absent skip list)
    from harness.props.c14 import designspace_prefilter_section
    designspace_prefilter_section(ctx)
    rng = ctx.subrng("sources")
    # ---------------- generated static fonts
    for i in range(ctx.budget(24, 160)):
        lib = ["ufoLib2", "defcon"][i % 2]
        desc = gen_component_font(rng, n=rng.randint(4, 8), kinds=("line", "curve"), anchors=True, max_depth=3,
                                  classes=["identity", "scale", "shear", "mirror_x", "general_small"])
        for k, g in enumerate(desc["glyphs"]):
            g["unicodes"] = [0x61 + k]
        # a pure composite whose components carry identifiers with TrueType flags in the glyph's public.objectLibs (round the offset
        # to the grid: no; use my metrics: yes): the instruction compiler READS them from the source glyph
        plain_ = next((g["name"] for g in desc["glyphs"] if g["contours"] and not g["components"]), None)
        if plain_:
            one_ = (Fr(1), Fr(0), Fr(0), Fr(1))
            desc["glyphs"].append({"name": "comp.flags", "unicodes": [], "width": Fr(500), "contours": [], "anchors": [],
                                   "components": [(plain_, one_ + (Fr(0), Fr(0))), (plain_, one_ + (Fr(300), Fr(10)))],
                                   "component_ids": ["CID-1", "CID-2"],
                                   "lib": {"public.objectLibs": {"CID-1": {"public.truetype.useMyMetrics": True},
                                                                 "CID-2": {"public.truetype.roundOffsetToGrid": False}}}})
        # (a glyph with nothing in it but its advance: a filter that scales advances edits it like any other)
        desc["glyphs"].append({"name": "space", "unicodes": [0x20], "width": Fr(300), "contours": [], "components": [], "anchors": []})
        names = [g["name"] for g in desc["glyphs"]]
        desc["kerning"] = {(names[0], names[1]): Fr(-30)}
        desc["groups"] = {"public.kern1.A": [names[0]], "public.kern2.B": [names[1]]}
        desc["lib"] = rich_lib(names, [0x61 + k for k in range(len(names))], i)
        # every list-valued (mutable) font-info attribute is explicit and non-empty, and the style-map style cycles through
        # its four values: a compiler that extends or sorts such a list in place edits the caller's font info
        desc["info"] = dict(desc.get("info", {}), styleMapStyleName=["regular", "bold", "italic", "bold italic"][i % 4],
                            openTypeOS2Selection=[7] if i % 3 else [7, 8], openTypeOS2Type=[2], openTypeOS2Panose=[2, 0, 5, 3, 0, 0, 0, 0, 0, 0],
                            openTypeOS2UnicodeRanges=[1, 0], openTypeOS2CodePageRanges=[1, 0], openTypeHeadFlags=[3, 0],
                            openTypeOS2FamilyClass=[1, 1], postscriptBlueValues=[-10, 0, 500, 510], postscriptOtherBlues=[-250, -240],
                            postscriptStemSnapH=[90, 80], postscriptStemSnapV=[100, 95],
                            openTypeNameRecords=[{"nameID": 5, "platformID": 3, "encodingID": 1, "languageID": 0x409, "string": "Version 1.0"}],
                            openTypeGaspRangeRecords=[{"rangeMaxPPEM": 65535, "rangeGaspBehavior": [1, 0]}])
        opts = {}
        flt = []
        if rng.random() < 0.5:
            flt.append({"name": "propagateAnchors", "pre": True})
        if rng.random() < 0.3 or i % 4 == 1:
            flt.append({"name": "transformations", "kwargs": {"OffsetX": 10, "ScaleY": 50, "ScaleX": 80}})
        if rng.random() < 0.3:
            flt.append({"name": "decomposeTransformedComponents", "pre": True})
        if rng.random() < 0.2:
            flt.append({"name": "sortContours"})
        if flt:
            desc["lib"][FILTERS_KEY] = flt
        # non-exported glyphs: single ones, and composites listed together with (some of) their own bases, so that
        # the skip filter has to decompose a glyph that is itself skipped
        comps = [g for g in desc["glyphs"] if g["components"]]
        def skip_list():
            if comps and rng.random() < 0.6:
                g = rng.choice(comps)
                return [g["name"]] + sorted({b for b, _ in g["components"]})[:rng.randint(1, 2)]
            return [rng.choice(names)]
        if rng.random() < 0.35:
            desc["lib"]["public.skipExportGlyphs"] = skip_list()
        if rng.random() < 0.35:
            opts["skipExportGlyphs"] = skip_list()
        fn = rng.choice(["compileOTF", "compileTTF"])
        if rng.random() < 0.2:
            opts["removeOverlaps"] = True
        if fn == "compileTTF" and rng.random() < 0.4:
            opts["flattenComponents"] = True
        if rng.random() < 0.3:
            opts["useProductionNames"] = True
        bad = rng.random() < 0.15
        if bad:
            desc["glyphs"][1]["unicodes"] = list(desc["glyphs"][0]["unicodes"])     # duplicate code point: raises midway
        font = build_font(desc, lib)
        if i % 6 == 5 and not bad:
            # compiling a non-default layer: an empty one, or one whose only glyph is not exported (the working glyph set is
            # empty then, the default layer is not)
            which = ["empty", "only-skipped"][(i // 6) % 2]
            layer = font.newLayer("aux")
            if which == "only-skipped":
                gl = layer.newGlyph(names[0])
                gl.width = 500
                font[names[0]].drawPoints(gl.getPointPen()) if not desc["glyphs"][0]["components"] else None
                opts["skipExportGlyphs"] = [names[0]]
            opts["layerName"] = "aux"
            opts.pop("flattenComponents", None)
            ctx.klass("static:layerName=%s" % which)
        case = {"function": fn, "options": jsonable(opts), "lib": lib, "font": jsonable(desc), "raises_midway": bad}
        ctx.klass("static:%s%s" % (fn, ":raises" if bad else ""))
        run_case(ctx, case, [font], None, lambda: getattr(ufo2ft, fn)(font, **opts), expect_raise=bad)
    # ---------------- generated families
    for i in range(ctx.budget(18, 120)):
        lib = ["ufoLib2", "defcon"][i % 2]
        n = rng.choice([2, 2, 3])
        fn = ["compileVariableTTF", "compileVariableCFF2", "compileInterpolatableTTFsFromDS", "compileInterpolatableOTFsFromDS",
              "compileVariableTTFs", "compileVariableCFF2s", "compileInterpolatableTTFs"][i % 7]
        vf_info = None
        if i % 3 == 2:
            fn = ["compileVariableTTFs", "compileVariableCFF2s"][(i // 3) % 2]
            lib = ["ufoLib2", "defcon"][(i // 6) % 2]
        if fn in ("compileVariableTTFs", "compileVariableCFF2s") and (i % 3 == 2 or rng.random() < 0.5):
            # format-5 document: <variable-font> elements carrying public.fontInfo overrides (applied by InfoCompiler)
            pool = {"familyName": "Fam Variable", "postscriptFontName": "FamVF-Regular", "trademark": "vf tm", "versionMajor": 3,
                    "openTypeOS2Type": [2], "italicAngle": -8, "openTypeOS2Panose": [2, 0, 5, 3, 0, 0, 0, 0, 0, 0],
                    "openTypeNameRecords": [{"nameID": 25, "platformID": 3, "encodingID": 1, "languageID": 1033, "string": "FamVar"}],
                    "openTypeGaspRangeRecords": [{"rangeMaxPPEM": 65535, "rangeGaspBehavior": [0, 1]}]}
            vf_info = [{k: v for k, v in pool.items() if rng.random() < 0.6} for _ in range(rng.choice([1, 2]))]
        ds, fonts, masters = dsgen.family(rng, n, lib, vf_info=vf_info)
        # source descriptors as a program builds them in memory: unnamed, or sharing a name
        nm = rng.random()
        if nm < 0.3:
            for sdesc in ds.sources:
                sdesc.name = None
        elif nm < 0.4:
            for sdesc in ds.sources:
                sdesc.name = "master"
        gn = [g["name"] for g in masters[0]["glyphs"]]
        cp = {g["name"]: (g.get("unicodes") or [None])[0] for g in masters[0]["glyphs"]}
        coded = [x for x in gn if cp[x] is not None]
        if coded and i % 2 == 0:
            for f in fonts:
                f.lib["public.unicodeVariationSequences"] = {"FE00": {"%04X" % cp[x]: gn[(k + 1) % len(gn)] for k, x in enumerate(coded)},
                                                             "FE01": {"%04X" % cp[coded[0]]: "ghost.glyph"}}
                f.lib["public.openTypeMeta"] = {"dlng": ["Latn"], "slng": ["Latn", "Grek"]}
        opts = {}
        if rng.random() < 0.3 and fn.startswith("compileVariable"):
            opts["variableFeatures"] = rng.random() < 0.5
        if rng.random() < 0.3 and not (fn.startswith("compileVariable") and opts.get("variableFeatures", True)):
            # (with variable features a filter that adds anchors makes the mark writer raise: finding F14, C10)
            for f in fonts:
                f.lib[FILTERS_KEY] = [{"name": "propagateAnchors", "pre": True}]
        if rng.random() < 0.3:
            ds.lib["public.skipExportGlyphs"] = [masters[0]["glyphs"][-1]["name"]]
        if i % 4 == 1 and not (fn.startswith("compileVariable") and opts.get("variableFeatures", True)):
            # a STALE skip list (it names no glyph of any master, so pruning reports nothing) and, as the first filter that does
            # modify something, an anchor propagation that reaches glyphs through the interpolated layers
            ds.lib["public.skipExportGlyphs"] = ["ghost.glyph"]
            for f in fonts:
                f.lib[FILTERS_KEY] = [{"name": "propagateAnchors", "pre": True}]
            ctx.klass("family: stale skip list + propagateAnchors")
        if rng.random() < 0.3 and "TTF" in fn:
            opts["flattenComponents"] = True
        if fn.endswith("FromDS") and i % 2 == 1 or i % 5 == 2:
            # a source that SPELLS OUT the name of its font's default layer (as a document written by a tool may): the source
            # descriptor is the caller's, whatever the compiler makes of the name
            ds.sources[-1].layerName = fonts[-1].layers.defaultLayer.name
            ctx.klass("family: a source naming its font's default layer explicitly")
        case = {"function": fn, "options": jsonable(opts), "lib": lib, "masters": n, "font": jsonable(masters[0])}
        ctx.klass("family:" + fn + ("+vf-info" if vf_info else ""))
        if fn == "compileInterpolatableTTFs":
            run_case(ctx, case, fonts, ds, lambda: list(ufo2ft.compileInterpolatableTTFs(fonts, **opts)))
        else:
            run_case(ctx, case, fonts, ds, lambda: getattr(ufo2ft, fn)(ds, **opts))
    # ---------------- font LISTS whose masters carry their own, differing public.skipExportGlyphs lists (the documented rule
    # takes the union): the lists are the callers' own objects inside font.lib
    for i in range(ctx.budget(8, 24)):
        lib = ["ufoLib2", "defcon"][i % 2]
        ds, fonts, masters = dsgen.family(rng, 2 + (i // 2) % 2, lib)
        nm = [g["name"] for g in masters[0]["glyphs"]]
        pats = [[[nm[-1]], [nm[-1], nm[-2]]], [[nm[-2], nm[-1]], [nm[-1]]], [[], [nm[-1]]], [[nm[-1]], [nm[-1]]]][(i // 2) % 4]
        for k, f in enumerate(fonts):
            f.lib["public.skipExportGlyphs"] = list(pats[min(k, len(pats) - 1)])
        which = ["compileInterpolatableTTFs", "InterpolatableOTFCompiler.compile"][(i // 8) % 2] if not ctx.quick() else "compileInterpolatableTTFs"
        case = {"function": which, "lib": lib, "masters": len(fonts), "skip_lists": pats, "font": jsonable(masters[0])}
        ctx.klass("family:" + which + "+per-master skip lists")
        if which == "compileInterpolatableTTFs":
            run_case(ctx, case, fonts, ds, lambda: list(ufo2ft.compileInterpolatableTTFs(fonts)))
        else:
            from ufo2ft._compilers.interpolatableOTFCompiler import InterpolatableOTFCompiler
            run_case(ctx, case, fonts, ds, lambda: list(InterpolatableOTFCompiler().compile(fonts)))
    # ---------------- source locations that leave out the axes on which the source sits at the default
    for i in range(ctx.budget(6, 24)):
        lib = ["ufoLib2", "defcon"][i % 2]
        fn = ["compileInterpolatableTTFsFromDS", "compileInterpolatableOTFsFromDS", "compileVariableTTF", "compileVariableCFF2",
              "compileVariableTTFs", "compileVariableCFF2s"][i % 6]
        base = dsgen.base_master(rng)
        masters = [base] + [dsgen.perturb(rng, base, k) for k in (1, 2)]
        locs = [[{}, {"Weight": 900}, {"Width": 200}], [{"Weight": 100}, {"Weight": 900}, {"Width": 200, "Weight": 100}]][(i // 6) % 2]
        ds, fonts = dsgen.make_designspace(rng, masters, lib, locations=locs, instances=False,
                                           axes=[("Weight", "wght", 100, 100, 900), ("Width", "wdth", 100, 100, 200)])
        opts = {"inplace": False} if "Interpolatable" in fn and i % 12 >= 6 else {}
        case = {"function": fn, "options": jsonable(opts), "lib": lib, "masters": 3, "source_locations": locs, "font": jsonable(base)}
        ctx.klass("family:" + fn + "+partial source locations")
        run_case(ctx, case, fonts, ds, lambda: getattr(ufo2ft, fn)(ds, **opts))
    # ---------------- fixtures
    fixtures = [("TestFont.ufo", {}), ("TestMathFont-Regular.ufo", {}), ("ColorTest.ufo", {}), ("DottedCircleTest.ufo", {}),
                ("ContourOrderTest.ufo", {}), ("CantarellAnchorPropagation.ufo", {}), ("UseMyMetrics.ufo", {}),
                ("SpacingCombiningTest-Regular.ufo", {}), ("MultipleAnchorClasses.ufo", {}), ("ColorTestRaw.ufo", {}),
                ("COLRv1Test.ufo", {})]
    if ctx.quick():
        fixtures = fixtures[:6]
    for k, (name, opts) in enumerate(fixtures):
        for lib in ("ufoLib2", "defcon"):
            for fn in ("compileOTF", "compileTTF"):
                path = os.path.join(DATA, name)
                if not os.path.exists(path):
                    continue
                try:
                    font = load(path, lib)
                except Exception:
                    continue
                case = {"function": fn, "fixture": name, "lib": lib, "options": opts}
                ctx.klass("fixture:" + name)
                run_case(ctx, case, [font], None, lambda: getattr(ufo2ft, fn)(font, **opts))
    dspaces = ["MutatorSans/MutatorSans.designspace", "NestedComponents.designspace", "SkipExportGlyphsTest.designspace",
               "TestVarfea.designspace", "DesignspaceTest/DesignspaceTest.designspace", "TestVarFont.designspace",
               "MutatorSansLite/MutatorSans_v5_several_vfs.designspace", "OTestFont.designspace"]
    if ctx.quick():
        dspaces = dspaces[:4]
    from fontTools.designspaceLib import DesignSpaceDocument
    for k, rel in enumerate(dspaces):
        path = os.path.join(DATA, rel)
        if not os.path.exists(path):
            continue
        for lib in ("ufoLib2", "defcon"):
            fns = ["compileVariableTTFs", "compileVariableCFF2s", "compileInterpolatableTTFsFromDS", "compileInterpolatableOTFsFromDS"]
            for fn in (fns if not ctx.quick() else fns[k % 2::2]):
                try:
                    ds = DesignSpaceDocument.fromfile(path)
                    ds.loadSourceFonts(lambda p, lib=lib: load(p, lib))
                except Exception as e:
                    ctx.klass("fixture-load-failed")
                    continue
                fonts = []
                for s in ds.sources:
                    if s.font is not None and not any(s.font is f for f in fonts):
                        fonts.append(s.font)
                case = {"function": fn, "fixture": rel, "lib": lib}
                ctx.klass("fixture-ds:" + rel.split("/")[-1])
                run_case(ctx, case, fonts, ds, lambda: getattr(ufo2ft, fn)(ds))
    ctx.sample({"functions": sorted({k.split(":", 1)[1] for k in ctx.hist if k.startswith(("static:", "family:"))}),
                "fixtures": sorted({k.split(":", 1)[1] for k in ctx.hist if k.startswith("fixture")})})
