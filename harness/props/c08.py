"""C08 -- output is a pure function of UFO content and options."""
import json, os, subprocess, sys
from concurrent.futures import ThreadPoolExecutor

PID = "C08"
LEVEL_TEXT = ("PARTIAL. Proved in Coq: (a) serialising a set through sort is independent of the enumeration order (any two "
              "permutations give the same list; membership tests likewise) -- the mechanism that makes the writers' output "
              "independent of PYTHONHASHSEED; (b) on the heap model of C07, a compile that only writes through a copied glyph set is "
              "followed by a compile that sees the same sources, hence the same output, and a direct writer breaks exactly that "
              "(closed witness). Whether every set in the real code is sorted before use, and whether live objects cache state, is "
              "runtime behaviour: it is observed by compiling the same seeded sources in fresh interpreters started with "
              "different PYTHONHASHSEED values and comparing the sha256 of the saved bytes across hash seeds, call histories "
              "(twice; TTF then OTF and reverse; static then variable and reverse), defcon vs ufoLib2, in-memory vs saved and "
              "re-opened UFOs, and inplace on a copy (SOURCE_DATE_EPOCH pinned).")
LEVEL_NOTE = ("Trusted: Coq kernel for the two theorems; the comparison harness. Known finding F1b: a second compile of a font with "
              "MATH constants differs (consequence of F1); colour-layer fonts cannot be compiled twice (F4).")
TECHNIQUE = "Coq theorems (sort-based serialisation is order independent; second call sees the same sources) + byte comparison across hash seeds, histories, libraries"
RULE = ("seeded generated fonts (kerning groups, marks, anchors, Latin/Cyrillic/Greek/Arabic/Hebrew code points, lib filters) and "
        "2-master families, plus fixtures; each compiled in k fresh interpreters with PYTHONHASHSEED in {0,1,2,3,17,...}; within "
        "one interpreter through 6-8 histories per source. Non-trivial = a (source, history) cell compared across >= 2 seeds."
        " Every font carries a contextual anchor (identifier + public.objectLibs), a random mark-class conflict graph and a tie between two vertical origins; VF-info documents compiled twice; inplace cells for fixtures.")
ASSUMPTIONS = ["SOURCE_DATE_EPOCH=0 pins head.created/modified"]
F1B_SIG = "MATH-second-compile-loses-MinConnectorOverlap"
F4_SIG = "colour-layers-second-compile"

GROUPS = [
    ("second call", lambda k: k.endswith("-second"), lambda k: k[:-7]),
    ("TTF after OTF", lambda k: k.endswith("/ttf-after-otf"), lambda k: k[:-14] + "/ttf"),
    ("OTF after TTF", lambda k: k.endswith("/otf-after-ttf"), lambda k: k[:-14] + "/otf-first"),
    ("inplace", lambda k: k.endswith("/ttf-inplace"), lambda k: k[:-12] + "/ttf"),
    ("after fonts of other styles were compiled", lambda k: k.endswith("/ttf-after-other-styles"), lambda k: k[:-23] + "/ttf"),
    ("after an empty layer of the same font was compiled", lambda k: k.endswith("/ttf-after-empty-layer"), lambda k: k[:-22] + "/ttf"),
    ("reloaded from disk", lambda k: k.endswith("/ttf-reloaded"), lambda k: k[:-13] + "/ttf"),
    ("reloaded from disk (otf)", lambda k: k.endswith("/otf-reloaded"), lambda k: k[:-13] + "/otf-first"),
    ("static after variable", lambda k: k.endswith("/static-after-var"), lambda k: k[:-17] + "/static-first"),
    ("static after variable font with info overrides", lambda k: k.endswith("/static-after-vfinfo"), lambda k: k[:-20] + "/static-first"),
    ("variable after static", lambda k: k.endswith("/vcff2-first"), lambda k: k[:-12] + "/vcff2-after"),
    ("filter OBJECTS handed to an earlier compile of another font", lambda k: k.endswith("-after-other-font"), lambda k: k[:-17] + "-fresh-objects"),
    ("the caller's options object after the calls", lambda k: k.endswith("/ftconfig-after"), lambda k: k[:-15] + "/ftconfig-before"),
]


def run_worker(seed, n, mode, hashseed):
    env = dict(os.environ, PYTHONHASHSEED=str(hashseed), SOURCE_DATE_EPOCH="0")
    p = subprocess.run(["/venv/bin/python", "-W", "ignore", os.path.join(os.path.dirname(os.path.dirname(os.path.abspath(__file__))), "c08_worker.py"), str(seed), str(n), mode],
                       env=env, stdout=subprocess.PIPE, stderr=subprocess.PIPE, text=True, timeout=3000)
    if p.returncode != 0:
        raise RuntimeError("worker (PYTHONHASHSEED=%s) failed: %s" % (hashseed, p.stderr[-2000:]))
    return json.loads(p.stdout.strip().splitlines()[-1])


def explore(ctx):
    seeds = [0, 1, 2, 3, 17] if ctx.quick() else [0, 1, 2, 3, 17, 42, 99, 1234, 31337, 7, 8, 9]
    n = 2 * ctx.scale if ctx.quick() else 8 * ctx.scale
    mode = "quick" if ctx.quick() else "thorough"
    base_seed = ctx.seed % 100000 + ctx.scale
    with ThreadPoolExecutor(max_workers=min(16, len(seeds))) as ex:
        results = list(ex.map(lambda hs: run_worker(base_seed, n, mode, hs), seeds))
    ref = results[0]
    # (1) across hash seeds
    for hs, res in zip(seeds[1:], results[1:]):
        for k in ref:
            ctx.count()
            if res.get(k) != ref[k]:
                ctx.spec_failure({"cell": k, "PYTHONHASHSEED": [seeds[0], hs], "generator_seed": base_seed},
                                 "bytes differ between PYTHONHASHSEED=%d and %d for %s" % (seeds[0], hs, k))
            else:
                ctx.nontriv(k)
    ctx.klass("cells x hash seeds", len(ref) * (len(seeds) - 1))
    # (2) histories, within the reference interpreter
    for title, pred, other in GROUPS:
        for k in ref:
            if pred(k) and other(k) in ref:
                ctx.count()
                ctx.klass("history:" + title)
                if ref[k] != ref[other(k)]:
                    sig = None
                    if "TestMathFont" in k and title == "second call":
                        sig = F1B_SIG
                    if "ColorTest" in k and title == "second call":
                        sig = F4_SIG
                    ctx.spec_failure({"cell": k, "compared_with": other(k), "generator_seed": base_seed},
                                     "%s: %s differs from %s" % (title, k, other(k)), signature=sig)
    # (3) defcon vs ufoLib2
    for k in ref:
        if "/ufoLib2/" in k:
            k2 = k.replace("/ufoLib2/", "/defcon/")
            if k2 in ref:
                ctx.count()
                ctx.klass("defcon-vs-ufoLib2")
                if ref[k] != ref[k2] and not (ref[k].startswith("raised") or ref[k2].startswith("raised")):
                    ctx.spec_failure({"cell": k, "compared_with": k2, "generator_seed": base_seed}, "defcon and ufoLib2 sources give different bytes: %s" % k)
    ctx.sample({"cells": sorted(ref)[:8], "hash_seeds": seeds})
    ctx.notes["hash_seeds"] = seeds
    ctx.notes["cells_per_interpreter"] = len(ref)
