"""C04 -- compiled fonts are serialisable and their derived fields are consistent."""
import io, traceback
from collections import Counter
from fractions import Fraction as Fr
from harness import gterm as G, geom
from harness.fonts import build_font, gen_component_font, jsonable

PID = "C04"
LEVEL_TEXT = ("Proof + correspondence: Coq theorems for every advance sequence / glyph list: the hmtx table written with the "
              "pre-computed long-metric count decodes back to the same advances, that count is minimal, the hhea/vhea fields are "
              "the extrema of their per-glyph formulas (0 without outlines), the font box encloses every glyph box; the VORG default is a "
              "most frequent vertical origin that occurs, reading the VORG table back gives every glyph its own origin, and no record "
              "repeats the default (for every glyph list with distinct names). The model "
              "hhea_of/font_box/num_long is evaluated in Coq on the per-glyph metrics read from the TTFont *as returned by "
              "ufo2ft* (before fontTools recomputes anything on save) and from the reloaded font; the Gallina VORG builder is compared with "
              "the compiled VORG table and vmtx top side bearings (origin - yMax) for fonts with explicit public.verticalOrigin values. PARTIAL: byte-identical "
              "save->reload->save, maxp, post names and OS/2 first/last char index are fontTools-runtime facts and "
              "are observed on the implementation, not modelled.")
LEVEL_NOTE = ("Trusted: Coq kernel, hand model of the header arithmetic (correspondence-tested), harness; per-glyph boxes are taken "
              "from the compiled glyph data (glyf fields / charstring bounds).")
TECHNIQUE = "Coq proofs (hmtx round trip, minimal long-metric count, extrema) + vm_compute check of the returned and reloaded header fields"
IMPORTS = "From U2F Require Import Base.Prelude Metrics.Hmtx Metrics.Vorg."
RULE = ("random fonts whose advance sequences are drawn from {all equal, equal tail, strictly descending, single glyph, zeros, "
        "random}, with empty glyphs first/last, component-only glyphs, vertical metrics on/off (explicit public.verticalOrigin on some "
        "glyphs, ties between origins), post format 2/3, TTF and OTF; "
        "thorough adds every advance sequence of length <= 6 over 3 values. Non-trivial = the long-metric count is strictly "
        "between 1 and the glyph count, or a glyph is empty."
        " Boundary code points (U+0000, U+FFFF, supplementary only) with OS/2 first/last read from the returned object; OTF with roundTolerance < 1/2 and fractional extrema.")
ASSUMPTIONS = ["fontTools (de)serialisation is deterministic"]

FN_VORG = ("fun c : ((Z * list (str * (option Z * (option Z * Z)))) * (list (str * Z) * Z)) => "
           "c04_vorg (fst (fst c)) (snd (fst c)) (fst (snd c)) (snd (snd c))")
FN = ("fun c : (list gmetric * hhea * box) => let '(l, h, b) := c in if c04_check l h b then 3 else 0")


def g_box(b):
    return "(mkBox %s %s %s %s)" % tuple(G.z(v) for v in b)


def metrics_of(tt, vertical=False):
    """per glyph (adv, first side bearing, box or None) in glyph order, read from the font's own data"""
    order = tt.getGlyphOrder()
    out = []
    gs = tt.getGlyphSet()
    from fontTools.pens.boundsPen import BoundsPen
    for n in order:
        adv, sb = tt["hmtx"][n]
        if "glyf" in tt:
            g = tt["glyf"][n]
            if g.numberOfContours == 0 or not hasattr(g, "xMin"):
                box = None
            else:
                box = (g.xMin, g.yMin, g.xMax, g.yMax)
                if box == (0, 0, 0, 0):
                    box = None
        else:
            bp = BoundsPen(gs)
            gs[n].draw(bp)
            box = None
            if bp.bounds is not None:
                import math
                from fontTools.misc.roundTools import otRound
                b = bp.bounds
                box = (math.floor(b[0]) if b[0] != otRound(b[0]) else otRound(b[0]), math.floor(b[1]) if b[1] != otRound(b[1]) else otRound(b[1]),
                       math.ceil(b[2]) if b[2] != otRound(b[2]) else otRound(b[2]), math.ceil(b[3]) if b[3] != otRound(b[3]) else otRound(b[3]))
                if box == (0, 0, 0, 0):
                    box = None
        out.append((n, adv, sb, box))
    return out


def g_case(ms, hh, headbox):
    l = G.lst(["(mkGM %s %s %s)" % (G.z(a), G.z(s), ("(Some %s)" % g_box(b)) if b else "None") for _, a, s, b in ms], "gmetric")
    h = "(mkHhea %s %s %s %s %s)" % (G.z(hh.advanceWidthMax), G.z(hh.minLeftSideBearing), G.z(hh.minRightSideBearing),
                                     G.z(hh.xMaxExtent), G.nat(hh.numberOfHMetrics))
    return G.tup(l, h, g_box(headbox))


def gen_widths(rng, n):
    k = rng.random()
    if k < 0.15:
        return [500] * n
    if k < 0.45:
        t = rng.randint(1, n)
        return [rng.choice([300, 500, 700, 0]) for _ in range(n - t)] + [rng.choice([500, 0, 600])] * t
    if k < 0.55:
        return [1000 - 10 * i for i in range(n)]
    if k < 0.65:
        return [0] * n
    return [rng.choice([0, 250, 500, 500, 1000]) for _ in range(n)]


def make_font(rng, widths):
    glyphs = []
    for i, w in enumerate(widths):
        g = {"name": "g%02d" % i, "width": Fr(w), "unicodes": [0x41 + i] if rng.random() < 0.7 else [], "contours": [],
             "components": []}
        if i == 1 and rng.random() < 0.35:
            g["unicodes"] = [rng.choice([0x0, 0x0, 0xD, 0xFFFF, 0x1F600, 0x10FFFF])]     # boundary code points (U+0000 is a valid mapping)
        k = rng.random()
        if k < 0.6:
            x0, y0 = rng.randint(-200, 300), rng.randint(-300, 300)
            x1, y1 = x0 + rng.randint(1, 900), y0 + rng.randint(1, 900)
            g["contours"] = [[(Fr(x0), Fr(y0), "line"), (Fr(x1), Fr(y0), "line"), (Fr(x1), Fr(y1), "line"), (Fr(x0), Fr(y1), "line")]]
        elif k < 0.68:
            # degenerate outlines: a hairline (zero height or zero width box) away from the origin
            x0, y0 = rng.randint(20, 300), rng.randint(50, 400)
            if rng.random() < 0.5:
                g["contours"] = [[(Fr(x0), Fr(y0), "line"), (Fr(x0 + rng.randint(50, 400)), Fr(y0), "line")]]
            else:
                g["contours"] = [[(Fr(x0), Fr(y0), "line"), (Fr(x0), Fr(y0 + rng.randint(50, 400)), "line"), (Fr(x0), Fr(y0 + 20), "line")]]
        elif k < 0.8 and i > 0 and glyphs[0]["contours"]:
            g["components"] = [(glyphs[0]["name"], (Fr(1), Fr(0), Fr(0), Fr(1), Fr(rng.randint(-100, 100)), Fr(rng.randint(-50, 50))))]
        glyphs.append(g)
    if rng.random() < 0.5:
        glyphs[0]["name"] = ".notdef"
        glyphs[0]["unicodes"] = []   # a code point mapped to glyph 0 cannot be represented in a cmap
        for g in glyphs:
            g["components"] = [(".notdef" if b == "g00" else b, t) for b, t in g["components"]]
    return {"glyphs": glyphs, "glyphOrder": [g["name"] for g in glyphs]}


def instructions_section(ctx):
    """TrueType glyph programs from the glyphs' libs (public.truetype.instructions, accepted when the stored outline hash
    matches), with and without font-level instruction data: maxp.maxSizeOfInstructions is the size of the largest glyph
    program of the glyf table -- on the font as returned and after save / reload -- and the font re-saves to the same bytes"""
    import ufo2ft
    from functools import partial
    from fontTools.ttLib import TTFont
    from fontTools.pens.hashPointPen import HashPointPen
    from fontTools.pens.roundingPen import RoundingPointPen
    from fontTools.misc.fixedTools import floatToFixedToFloat
    KEY = "public.truetype.instructions"
    PROGS = ["PUSHB[ ] 0 1 2 3\nPOP[ ]\nPOP[ ]\nPOP[ ]\nSVTCA[0]\nMDAP[1]\nIUP[0]\nIUP[1]", "SVTCA[0]\nIUP[0]", "PUSHB[ ] 0\nMDAP[1]\nIUP[1]"]
    sq = lambda x, d: [[(Fr(x), Fr(0), "line"), (Fr(x + d), Fr(0), "line"), (Fr(x + d), Fr(d), "line"), (Fr(x), Fr(d), "line")]]
    for i in range(ctx.budget(6, 24)):
        lib = ["ufoLib2", "defcon"][i % 2]
        font_level = [None, {}, {"formatVersion": "1", "controlValue": {"0": 0, "1": 500}, "controlValueProgram": "PUSHB[ ] 0\nPOP[ ]",
                                 "fontProgram": "PUSHB[ ] 0\nFDEF[ ]\nPOP[ ]\nENDF[ ]", "maxFunctionDefs": 1, "maxStorage": 0,
                                 "maxStackElements": 8, "maxTwilightPoints": 0, "maxZones": 1, "maxInstructionDefs": 0}][(i // 2) % 3]
        programmed = [["a"], ["a", "b"], ["b"]][i % 3]
        glyphs = [{"name": n, "unicodes": [u], "width": 500 + 50 * k, "contours": sq(50, 300 + 40 * k), "components": [], "anchors": []}
                  for k, (n, u) in enumerate((("a", 0x61), ("b", 0x62), ("c", 0x63)))]
        desc = {"glyphs": glyphs, "glyphOrder": ["a", "b", "c"], "lib": {}}
        case = {"font": jsonable(desc), "lib": lib, "glyph_programs": programmed, "font_level_instructions": font_level}
        ctx.count(); ctx.klass("glyph programs / font-level data %s" % ("absent" if font_level is None else "empty" if not font_level else "present"))
        ctx.nontriv(("instr", i, ctx.scale))
        try:
            plain = ufo2ft.compileTTF(build_font(desc, lib), useProductionNames=False)
            for k, n in enumerate(programmed):
                hp = HashPointPen(plain["hmtx"][n][0], plain.getGlyphSet())
                plain["glyf"][n].drawPoints(RoundingPointPen(hp, transformRoundFunc=partial(floatToFixedToFloat, precisionBits=14)), plain["glyf"])
                next(g for g in glyphs if g["name"] == n)["lib"] = {KEY: {"formatVersion": "1", "id": hp.hash, "assembly": PROGS[(i + k) % 3]}}
            if font_level is not None:
                desc["lib"][KEY] = font_level
            tt = ufo2ft.compileTTF(build_font(desc, lib), useProductionNames=False)
            returned = tt["maxp"].maxSizeOfInstructions
            buf = io.BytesIO(); tt.save(buf); data1 = buf.getvalue()
            tt2 = TTFont(io.BytesIO(data1))
            buf2 = io.BytesIO(); tt2.save(buf2); data2 = buf2.getvalue()
            tt3 = TTFont(io.BytesIO(data1))
            sizes = {n: len(tt3["glyf"][n].program.getBytecode()) for n in tt3.getGlyphOrder()
                     if getattr(tt3["glyf"][n], "program", None) is not None and tt3["glyf"][n].program.getBytecode()}
        except Exception as e:
            ctx.spec_failure(case, "raised %s: %s\n%s" % (type(e).__name__, e, traceback.format_exc()[-1000:]))
            continue
        if sorted(sizes) != sorted(programmed):
            ctx.spec_failure(dict(case, programs_in_font=sizes), "glyph programs with a matching outline hash were not compiled: %r" % sizes)
            continue
        want = max(sizes.values())
        if returned != want or tt3["maxp"].maxSizeOfInstructions != want:
            ctx.spec_failure(dict(case, program_sizes=sizes), "maxp.maxSizeOfInstructions is %r as returned and %r after reload; the largest glyph "
                             "program has %d bytes" % (returned, tt3["maxp"].maxSizeOfInstructions, want))
        if data1 != data2:
            ctx.spec_failure(case, "save -> reload -> save is not byte-identical with glyph programs")


def explore(ctx):
    instructions_section(ctx)
    import ufo2ft, itertools
    from fontTools.ttLib import TTFont
    rng = ctx.subrng("metrics")
    jobs = []
    for i in range(ctx.budget(60, 300)):
        n = rng.randint(1, 9)
        if i % 6 == 2:
            n = max(n, 5)            # the renamed cases need a few glyphs
        w = gen_widths(rng, n)
        # always (not left to the generator's dice): all advances equal -- non-zero and zero -- and a strictly descending run,
        # on fonts the other deterministic variants do not touch
        # (even indices are the TrueType ones: only there is the header count of the RETURNED font ufo2ft's own -- the CFF route
        # reloads the font in the post-processor)
        if i % 12 in (1, 4):
            w = [[500] * max(n, 2), [0] * max(n, 2)][(i // 12) % 2]
        elif i % 12 in (7, 10):
            w = [[500] * max(n, 3), [1000 - 10 * k for k in range(max(n, 3))]][(i // 12) % 2]
        jobs.append(w)
    if not ctx.quick():
        seqs = [list(s) for L in range(1, 7) for s in itertools.product([0, 500, 600], repeat=L)]
        rng.shuffle(seqs)
        jobs += seqs[: 400 * ctx.scale]
        ctx.notes["advance_sequence_sweep"] = min(len(seqs), 400 * ctx.scale)
    cases, meta = [], []
    vcases, vmeta = [], []
    for i, widths in enumerate(jobs):
        desc = make_font(rng, widths)
        if i % 12 == 11:
            # a character map holding a single boundary code point: only supplementary (F17), only U+0000, ...
            for g in desc["glyphs"]:
                g["unicodes"] = []
            desc["glyphs"][-1]["unicodes"] = [[0x1F600, 0x0, 0x10FFFF, 0xFFFF][(i // 12) % 4]] if desc["glyphs"][-1]["name"] != ".notdef" else []
        if i % 6 == 0:
            # always (TrueType on even i): a composite whose FIRST component has the composite's own advance and is not moved
            # (so it is the one whose metrics a rasteriser may take) while ANOTHER component sticks out further to the left:
            # the composite's left side bearing is its own outline's xMin, not the first component's
            box = lambda x0, y0, x1, y1: [[(Fr(x0), Fr(y0), "line"), (Fr(x1), Fr(y0), "line"), (Fr(x1), Fr(y1), "line"), (Fr(x0), Fr(y1), "line")]]
            one = (Fr(1), Fr(0), Fr(0), Fr(1))
            desc["glyphs"] += [{"name": "um.i", "width": Fr(250), "unicodes": [], "contours": box(100, 0, 150, 500), "components": []},
                               {"name": "um.tilde", "width": Fr(0), "unicodes": [], "contours": box(-80, 560, 130, 620), "components": []},
                               {"name": "um.itilde", "width": Fr(250), "unicodes": [], "contours": [],
                                "components": [("um.i", one + (Fr(0), Fr(0))), ("um.tilde", one + (Fr(100), Fr(0)))]}]
            desc["glyphOrder"] = [g["name"] for g in desc["glyphs"]]
            ctx.klass("composite whose first component shares its advance, another one sets xMin")
        flavor = ["ttf", "otf"][i % 2]
        if len(desc["glyphs"]) == 1 and desc["glyphs"][0]["name"] == ".notdef":
            # a CFF font holding only .notdef gets cffsubr's predefined ISOAdobe charset, which fontTools 4.55
            # cannot re-read (AttributeError: charset) -- environment limit (DESIGN, observation O1)
            flavor = "ttf"
        lib = "ufoLib2" if i % 3 else "defcon"
        vertical = (rng.random() < 0.3 or i % 5 == 3) and i % 6 != 2
        if i % 5 == 3 and not (len(desc["glyphs"]) == 1 and desc["glyphs"][0]["name"] == ".notdef"):
            flavor = "otf"          # VORG exists in CFF-flavoured fonts only
        info = {}
        if vertical:
            info = {"openTypeVheaVertTypoAscender": 500, "openTypeVheaVertTypoDescender": -500, "openTypeVheaVertTypoLineGap": 0}
            if i % 2 == 0:
                # the typographic ascender set explicitly and DIFFERENT from the ascender it would fall back to: the default
                # vertical origin is OS/2.sTypoAscender, not the ascender
                info.update({"ascender": 800, "openTypeOS2TypoAscender": [880, 760][(i // 2) % 2]})
            for g in desc["glyphs"]:
                g["height"] = Fr(rng.choice([1000, 1000, 800]))
            if rng.random() < 0.7 or i % 5 == 3:
                # explicit vertical origins (public.verticalOrigin) on some glyphs, the rest fall back to sTypoAscender
                pool = rng.choice([[880, 880, 880, None], [880, 800, None, None], [750.5, 880, None], [880, 880, 700, 800, None]])
                for g in desc["glyphs"]:
                    v = rng.choice(pool)
                    if v is not None:
                        g["lib"] = {"public.verticalOrigin": v}
        desc["info"] = info
        if i % 12 in (3, 8):
            # fractional advances (interpolated / scaled sources), exact halves above even AND odd integers included: the metrics
            # table holds the advance rounded to the nearest integer, halves up -- the same number the CFF charstring carries
            for k, g in enumerate(desc["glyphs"]):
                g["width"] = Fr([250, 301, 600, 2, 499, 0, 1000][k % 7]) + [Fr(1, 2), Fr(1, 2), Fr(1, 4), Fr(3, 4), Fr(1, 2), Fr(1, 2), Fr(0)][(k + i // 12) % 7]
                if vertical:
                    g["height"] = Fr([1000, 800, 901][k % 3]) + [Fr(1, 2), Fr(1, 2), Fr(3, 4)][(k + i // 12) % 3]
            ctx.klass("fractional advances (halves above even and odd integers)")
        kw = {"useProductionNames": False}
        if flavor == "otf" and i % 4 == 1:
            # unrounded charstrings: fractional outline extrema (fractions on both sides of 1/2), boxes by floor / ceil
            kw["roundTolerance"] = rng.choice([0, 0.125, 0.25])
            for g in desc["glyphs"]:
                fx, fy = (Fr(rng.choice([1, 4, 5, 6, 7]), 8) for _ in range(2))
                g["contours"] = [[(x + fx, y + fy, t) for x, y, t in c] for c in g["contours"]]
            ctx.klass("otf with roundTolerance < 1/2 and fractional extrema")
        if flavor == "otf":
            # every charstring optimisation level: only level 2 (cffsubr) saves and reloads the font on the way, so that
            # fontTools recomputes the boxes; at levels 0 and 1 the RETURNED head / FontBBox are ufo2ft's own
            kw["optimizeCFF"] = [2, 0, 1][(i // 2) % 3]
            ctx.klass("otf optimizeCFF=%d" % kw["optimizeCFF"])
        n3 = [g["name"] for g in desc["glyphs"] if g["name"] != ".notdef"][:3]
        renamed = i % 6 == 2 and not vertical and len(n3) == 3
        if renamed:
            # production names from the lib: two glyphs collide on one name and a LATER glyph literally carries the name the
            # de-duplication hands out -- the name list of the font must still be one name per glyph
            how = ["collision", "chain", "swap"][(i // 6) % 3]
            desc.setdefault("lib", {})["public.postscriptNames"] = {
                "collision": {n3[0]: "dup", n3[1]: "dup", n3[2]: "dup.1"},
                # renames that CROSS (a glyph takes the source name of a glyph renamed after it): CFF keeps its outlines in a
                # name-keyed table, which must still hold one charstring per glyph
                "chain": {n3[0]: n3[1], n3[1]: n3[2], n3[2]: n3[2] + ".x"},
                "swap": {n3[0]: n3[1], n3[1]: n3[0]}}[how]
            if how != "collision":
                flavor = "otf"
                kw["optimizeCFF"] = [0, 2][(i // 18) % 2]
                if any(g["name"] == ".notdef" and g["components"] for g in desc["glyphs"]):
                    pass
            desc["glyphOrder"] = [g["name"] for g in desc["glyphs"]]
            kw["useProductionNames"] = True
            ctx.klass("renamed through public.postscriptNames (%s)" % how)
        if i % 6 == 4 and len(desc["glyphs"]) >= 2:
            # a stored glyph order that names glyphs twice (the second mention is ignored): still one metric per glyph
            base = [g["name"] for g in desc["glyphs"]]
            desc["glyphOrder"] = base[:-1] + [base[len(base) // 2]] + base[-1:] + [base[0], base[-1]]
            ctx.klass("stored glyph order naming a glyph twice")
        case = {"font": jsonable(desc), "flavor": flavor, "lib": lib, "vertical": vertical, "options": jsonable(kw)}
        try:
            tt = (ufo2ft.compileTTF if flavor == "ttf" else ufo2ft.compileOTF)(build_font(desc, lib), **kw)
            returned_order = list(tt.getGlyphOrder())
            # the object as returned: header fields exactly as ufo2ft computed them
            hh0 = tt["hhea"]

            class H:  # header values exactly as returned, snapshotted before save() lets fontTools recalc them
                pass
            h = H()
            h.advanceWidthMax, h.minLeftSideBearing, h.minRightSideBearing, h.xMaxExtent, h.numberOfHMetrics = (
                hh0.advanceWidthMax, hh0.minLeftSideBearing, hh0.minRightSideBearing, hh0.xMaxExtent, hh0.numberOfHMetrics)
            returned_numh = h.numberOfHMetrics
            head0 = tt["head"]
            returned_head = (head0.xMin, head0.yMin, head0.xMax, head0.yMax)
            returned_os2 = (tt["OS/2"].usFirstCharIndex, tt["OS/2"].usLastCharIndex)
            returned_fontbbox = tuple(tt["CFF "].cff.topDictIndex[0].FontBBox) if "CFF " in tt else None
            buf = io.BytesIO(); tt.save(buf); data1 = buf.getvalue()
            tt2 = TTFont(io.BytesIO(data1))
            buf2 = io.BytesIO(); tt2.save(buf2); data2 = buf2.getvalue()
        except Exception as e:
            ctx.spec_failure(case, "raised %s: %s\n%s" % (type(e).__name__, e, traceback.format_exc()[-1200:]))
            continue
        ctx.count()
        ctx.klass("%s/%s%s" % (flavor, lib, "/vertical" if vertical else ""))
        if data1 != data2:
            ctx.spec_failure(case, "save -> reload -> save is not byte-identical (%d vs %d bytes)" % (len(data1), len(data2)))
        tt3 = TTFont(io.BytesIO(data1))
        ms = metrics_of(tt3)
        advs = [m[1] for m in ms]
        if 1 < tt3["hhea"].numberOfHMetrics < len(advs) or any(m[3] is None for m in ms):
            ctx.nontriv(("m", tuple(advs), tuple(m[3] is None for m in ms)))
        by_src = {g["name"]: g for g in desc["glyphs"]}
        if not renamed:
            for n, adv, _sb, _bx in ms:
                if n in by_src and adv != geom.ot_round(by_src[n]["width"]):
                    ctx.spec_failure(dict(case, glyph=n), "hmtx advance of %r is %d; the source advance %s rounds (halves up) to %d" % (
                        n, adv, by_src[n]["width"], geom.ot_round(by_src[n]["width"])))
                    break
                if vertical and "vmtx" in tt3 and n in by_src and "height" in by_src[n] and tt3["vmtx"][n][0] != geom.ot_round(by_src[n]["height"]):
                    ctx.spec_failure(dict(case, glyph=n), "vmtx advance of %r is %d; the source height %s rounds (halves up) to %d" % (
                        n, tt3["vmtx"][n][0], by_src[n]["height"], geom.ot_round(by_src[n]["height"])))
                    break
        if "CFF " in tt3:
            # the advance a CFF charstring carries is the metrics table's
            from fontTools.pens.basePen import NullPen
            css = tt3["CFF "].cff[0].CharStrings
            for n, adv, _sb, _bx in ms:
                cs = css[n]; cs.draw(NullPen())
                if cs.width != adv:
                    ctx.spec_failure(dict(case, glyph=n), "the CFF charstring of %r carries the advance %r, hmtx says %d" % (n, cs.width, adv))
                    break
        head = tt3["head"]
        # (1) returned object: numberOfHMetrics precomputed by ufo2ft must already be right
        if returned_numh != tt3["hhea"].numberOfHMetrics:
            ctx.spec_failure(case, "numberOfHMetrics precomputed by ufo2ft = %d, after serialisation %d" % (
                returned_numh, tt3["hhea"].numberOfHMetrics))
        cases.append(g_case(ms, h, returned_head))
        meta.append(dict(case, level="header as returned by ufo2ft", advances=advs))
        cases.append(g_case(ms, tt3["hhea"], (head.xMin, head.yMin, head.xMax, head.yMax)))
        meta.append(dict(case, level="reloaded font", advances=advs))
        # ---- direct, unmodelled
        if returned_fontbbox is not None and "roundTolerance" not in kw:
            bxs = [m[3] for m in ms if m[3] is not None]
            union = (min(b[0] for b in bxs), min(b[1] for b in bxs), max(b[2] for b in bxs), max(b[3] for b in bxs)) if bxs else (0, 0, 0, 0)
            if tuple(returned_fontbbox) != union:
                ctx.spec_failure(dict(case, level="CFF FontBBox as returned by ufo2ft"),
                                 "FontBBox of the returned CFF table is %r, the union of the glyph boxes is %r" % (returned_fontbbox, union))
        maxp = tt3["maxp"]
        if maxp.numGlyphs != len(ms):
            ctx.spec_failure(case, "maxp.numGlyphs %d != %d glyphs" % (maxp.numGlyphs, len(ms)))
        cps = sorted(tt3["cmap"].getBestCmap() or {})
        os2 = tt3["OS/2"]
        if cps and (os2.usFirstCharIndex != min(cps[0], 0xFFFF) or os2.usLastCharIndex != min(cps[-1], 0xFFFF)):
            ctx.spec_failure(case, "OS/2 first/last char index %r/%r vs cmap %r..%r" % (
                os2.usFirstCharIndex, os2.usLastCharIndex, cps[0], cps[-1]))
        # ... and already on the object ufo2ft returned (fontTools recomputes both fields whenever the table is serialised)
        if cps and returned_os2 != (min(cps[0], 0xFFFF), min(cps[-1], 0xFFFF)):
            ctx.spec_failure(dict(case, level="OS/2 as returned by ufo2ft"), "OS/2 first/last char index of the returned font %r vs cmap %r..%r" % (
                returned_os2, cps[0], cps[-1]))
        if cps and (cps[0] == 0 or cps[-1] > 0xFFFF):
            ctx.klass("boundary code point in cmap")
        if not renamed and tt3.getGlyphOrder() != [g["name"] for g in desc["glyphs"]] and ".notdef" in [g["name"] for g in desc["glyphs"]]:
            ctx.spec_failure(case, "glyph names after reload %r" % tt3.getGlyphOrder())
        if len(set(returned_order)) != len(returned_order) or tt3.getGlyphOrder() != returned_order:
            ctx.spec_failure(dict(case, returned_glyph_order=returned_order, reloaded_glyph_order=tt3.getGlyphOrder()),
                             "the glyph names of the returned font are not unique, or do not survive save and reload")
        if "VORG" in tt3:
            v = tt3["VORG"]
            counts = Counter()
            for n in tt3.getGlyphOrder():
                counts[v.VOriginRecords.get(n, v.defaultVertOriginY)] += 1
            if any(val == v.defaultVertOriginY for val in v.VOriginRecords.values()) or \
                    counts[v.defaultVertOriginY] < max(counts.values()):
                ctx.spec_failure(case, "VORG default %r is not a most frequent origin: %r" % (v.defaultVertOriginY, dict(counts)))
        if "VORG" in tt3:
            from fontTools.misc.roundTools import otRound
            v = tt3["VORG"]
            by = {g["name"]: g for g in desc["glyphs"]}
            boxes = {m[0]: m[3] for m in ms}
            gl = []
            # setupTable_VORG counts in glyph order (fix F18): that decides the default when two origins are equally frequent
            count_order = list(tt3.getGlyphOrder())
            for n in count_order:
                ex = by.get(n, {}).get("lib", {}).get("public.verticalOrigin")
                ymax = boxes[n][3] if boxes.get(n) else None
                gl.append(G.tup(G.s(n), G.tup("(Some %s)" % G.z(otRound(ex)) if ex is not None else "(@None Z)",
                                            G.tup("(Some %s)" % G.z(ymax) if ymax is not None else "(@None Z)",
                                                  G.z(tt3["vmtx"][n][1])))))
            recs = [G.tup(G.s(n), G.z(v.VOriginRecords[n])) for n in count_order if n in v.VOriginRecords]
            vcases.append(G.tup(G.tup(G.z(tt3["OS/2"].sTypoAscender), G.lst(gl, "(str * (option Z * (option Z * Z)))")),
                                G.tup(G.lst(recs, "(str * Z)"), G.z(v.defaultVertOriginY))))
            vmeta.append(dict(case, level="VORG / vmtx", vorg={"default": v.defaultVertOriginY, "records": dict(v.VOriginRecords)}))
            ctx.klass("VORG:%d records" % min(len(recs), 3))
        if vertical and "vmtx" in tt3 and not renamed:
            # top side bearing = vertical origin - yMax, the origin being the glyph's own public.verticalOrigin or, failing that,
            # the font's typographic ascender (as compiled into OS/2)
            for n, _adv, _sb, bx in ms:
                if bx is None or n not in by_src:
                    continue
                ex = by_src[n].get("lib", {}).get("public.verticalOrigin")
                origin = geom.ot_round(Fr(ex)) if ex is not None else tt3["OS/2"].sTypoAscender
                if tt3["vmtx"][n][1] != origin - bx[3]:
                    ctx.spec_failure(dict(case, glyph=n), "top side bearing of %r is %d; its vertical origin %d (%s) minus yMax %d is %d" % (
                        n, tt3["vmtx"][n][1], origin, "public.verticalOrigin" if ex is not None else "OS/2.sTypoAscender", bx[3], origin - bx[3]))
                    break
        if vertical and "vhea" in tt3:
            vh, vm = tt3["vhea"], tt3["vmtx"]
            hs = [vm[n][0] for n in tt3.getGlyphOrder()]
            if vh.advanceHeightMax != max(hs):
                ctx.spec_failure(case, "vhea.advanceHeightMax %r != max height %r" % (vh.advanceHeightMax, max(hs)))
    vals = ctx.coq_eval(IMPORTS, FN, cases, chunk=60, tag="Hhea")
    for v, case in zip(vals, meta):
        if v is None:
            continue
        if v != 3:
            ctx.spec_failure(case, "c04_check (Coq) false: hhea extrema / long-metric count / head box / side bearings / hmtx "
                                   "round trip inconsistent with the glyph data (%s)" % case["level"])
    vals = ctx.coq_eval(IMPORTS, FN_VORG, vcases, chunk=60, tag="Vorg")
    for v, case in zip(vals, vmeta):
        if v is None:
            continue
        if not v & 2:
            ctx.spec_failure(case, "VORG/vmtx disagree with the glyph data: some glyph's origin read from VORG is not its "
                                   "public.verticalOrigin / sTypoAscender, a record repeats the default, or tsb != origin - yMax")
        elif not v & 1:
            ctx.corr_mismatch(case, "Gallina vorg_records/vorg_default differ from the compiled VORG table")
    if meta:
        ctx.sample({"advances": meta[0]["advances"], "flavor": meta[0]["flavor"], "level": meta[0]["level"]})
