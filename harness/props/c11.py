"""C11 -- production names rename glyphs and change nothing else."""
import io, traceback
from fractions import Fraction as Fr
from harness import gterm as G
from harness.fonts import build_font, jsonable

PID = "C11"
LEVEL_TEXT = ("Proof + correspondence: Coq theorems (all glyph sets, orders, name maps): the names handed out by the model of "
              "_build_production_names/_unique_name are pairwise distinct, one per glyph of the glyph set in glyph order; renaming "
              "by an injective map keeps every glyph at its index (so every other table refers to the same glyph indices); only "
              "characters of the class read from GLYPH_NAME_INVALID_CHARS survive; the process_glyph_names decision table; generated "
              "names READ BACK: %04X printing and hex parsing are inverse, the name generated for every code point 0..10FFFF and "
              "for every ligature of BMP parts decodes (Adobe rules, Order/Agl.v -- compared with fontTools.agl.toUnicode) to "
              "exactly its code point(s). The "
              "Gallina model (uniXXXX/uXXXXX, suffix recursion, ligature parts, lib names, 63-char fallback, uniqueness counters) "
              "is compared with PostProcessor._build_production_names on generated glyph sets, and an executable spec (unique, "
              "legal, lib names used) is evaluated on the implementation's map. Directly observed: per-table bytes of fonts "
              "compiled with production names on vs off are identical except post/CFF/CFF2 (head.checkSumAdjustment masked).")
LEVEL_NOTE = ("Trusted: Coq kernel, hand model (correspondence-tested), constants reader, harness. fontTools post/CFF renaming is "
              "environment. Fuel of the uniqueness search is not proved sufficient (the model would return None; never observed).")
TECHNIQUE = "Coq proofs (distinct fresh names, index preservation, legal characters) + vm_compute correspondence with _build_production_names; per-table byte comparison"
IMPORTS = "From U2F Require Import Base.Prelude Order.ProdNames."
RULE = ("random glyph sets from a pool with suffixes (.sc, .alt.ss01), ligature underscores with and without suffix, names equal "
        "to generated uniXXXX names, non-BMP code points, code point 0, >63-character names, illegal characters; "
        "public.postscriptNames absent / partial / with duplicates, empty values and illegal characters; glyph order with names "
        "missing from the glyph set. Non-trivial = at least one glyph is renamed and at least one uniqueness suffix or recursion "
        "(suffix/ligature) is exercised."
        " Generated names are also required to decode (Adobe glyph-naming rules) to the glyph's code point(s), ligature parts included.")
ASSUMPTIONS = ["fontTools renames post/CFF name carriers consistently (observed via reload)"]

FN = ("fun c : (gset * psnames * list str * list (str * str)) => let '(gs, ps, order, obs) := c in "
      "(if model_rename_eqb gs ps order obs then 1 else 0) + (if spec_rename gs ps order obs then 2 else 0)")

POOL = [("A", 0x41), ("a", 0x61), ("f", 0x66), ("i", 0x69), ("l", 0x6C), ("zero", 0x30), ("nul", 0), ("emoji", 0x1F600),
        ("alpha", 0x3B1), ("ffff", 0xFFFF), ("tenk", 0x10000), ("f_ffff", None), ("ffff.alt", None), ("a.sc", None), ("a.alt.ss01", None), ("A.sc", None), ("f_i", None), ("f_f_i", None), ("f_l", None),
        ("f_i.liga", None), ("f.liga", None), ("i.liga", None), ("uni0041", None), ("uni0041.1", None), ("u1F600", None),
        ("emoji.alt", None), ("f_emoji", None), ("a-b", None), ("é", None), ("x" * 70, None), ("a." + "y" * 64, None),
        (".notdef", None), ("_part", None), ("f_nul", None), ("zero.sc", None), ("A.sc.alt", None), ("uni00410042", None),
        ("A_A", None), ("a_" * 14 + "a", None)]


def gen(rng):
    k = rng.randint(2, 14)
    items = rng.sample(POOL, k)
    order = [n for n, _ in items]
    rng.shuffle(order)
    if rng.random() < 0.2:
        order.insert(rng.randrange(len(order) + 1), "ghost")   # in the font, not in the glyph set
    ps = None
    r = rng.random()
    if r < 0.4:
        ps = {}
        for n, _ in items:
            if rng.random() < 0.5:
                ps[n] = rng.choice(["dup", "dup", "uni0041", "", "sp ace", n + ".ps", "q" * 66, "A"])
        if rng.random() < 0.2:
            ps = {}
    return items, order, ps


def impl_map(items, order, ps):
    from ufo2ft.postProcessor import PostProcessor

    class Gl:
        def __init__(self, n, u):
            self.name, self.unicode = n, u

    class Otf:
        def getGlyphOrder(self):
            return list(order)
    pp = PostProcessor.__new__(PostProcessor)
    pp.otf = Otf()
    pp.glyphSet = {n: Gl(n, u) for n, u in items}
    pp._postscriptNames = ps
    return list(pp._build_production_names().items())


def g_case(items, order, ps, obs):
    gs = G.lst([G.tup(G.s(n), G.opt(None if u is None else G.z(u), "Z")) for n, u in items], "(str * option Z)")
    psn = "(@None (list (str * str)))" if ps is None else "(Some %s)" % G.lst(
        [G.tup(G.s(a), G.s(b)) for a, b in ps.items()], "(str * str)")
    return G.tup(gs, psn, G.lst([G.s(n) for n in order], "str"),
                 G.lst([G.tup(G.s(a), G.s(b)) for a, b in obs], "(str * str)"))


def explore(ctx):
    rng = ctx.subrng("names")
    cases, meta = [], []
    for i in range(ctx.budget(400, 4000)):
        items, order, ps = gen(rng)
        try:
            obs = impl_map(items, order, ps)
        except Exception as e:
            ctx.spec_failure({"glyphs": items, "order": order, "postscriptNames": ps},
                             "_build_production_names raised %s: %s" % (type(e).__name__, e))
            continue
        cases.append(g_case(items, order, ps, obs))
        meta.append({"glyphs": items, "order": order, "postscriptNames": ps, "impl_rename_map": obs})
        # generated names follow the Adobe glyph-naming rules: they decode back to the glyph's code point(s)
        # (ligature parts joined by "_", suffix kept); judged where the name was generated, not lib-supplied,
        # and not the over-long fallback to the (sanitised) original name
        import re as _re
        from fontTools import agl
        uni = dict(items)
        for orig, final in obs:
            if ps and orig in ps:
                continue
            if _re.sub(r"\.\d+$", "", final) == _re.sub(r"[^0-9a-zA-Z_.]", "", orig) and not final.startswith(("uni", "u")):
                continue
            base, _, _suffix = orig.partition(".")
            parts = base.split("_")
            if uni.get(orig):
                want = chr(uni[orig])
            elif _suffix and len(parts) > 1 and all((pn + "." + _suffix) in uni for pn in parts):
                # the ligature's parts exist WITH the suffix (f.liga, i.liga): ufo2ft joins their production names
                # ("uni0066.liga_uni0069.liga"), which keeps suffixes and parts as the property says but is not an
                # AGL-decodable ligature name (observation O11); nothing to demand here
                ctx.klass("suffixed ligature parts present (name joined from suffixed parts, O11)")
                continue
            elif len(parts) > 1 and all(uni.get(pn) for pn in parts):
                want = "".join(chr(uni[pn]) for pn in parts)
            else:
                continue
            if final.startswith(("uni", "u")) and agl.toUnicode(final) != want:
                ctx.spec_failure({"glyphs": items, "order": order, "postscriptNames": ps, "glyph": orig, "final_name": final},
                                 "generated production name %r of %r does not decode to its code point(s) %r (decodes to %r)" % (
                                     final, orig, [hex(ord(ch)) for ch in want], [hex(ord(ch)) for ch in agl.toUnicode(final)]))
                break
        ctx.count()
        ctx.klass("function:" + ("psnames" if ps else "generated"))
        if any(a != b for a, b in obs) and any(b.rsplit(".", 1)[-1].isdigit() or "_" in a or "." in a for a, b in obs):
            ctx.nontriv(repr((items, order, ps)))
    vals = ctx.coq_eval(IMPORTS, FN, cases, chunk=200, tag="Names")
    for v, case in zip(vals, meta):
        if v is None:
            continue
        if not v & 2:
            ctx.spec_failure(case, "production names are not unique / not legal / do not use the lib-supplied name (Coq spec_rename)")
        elif not v & 1:
            ctx.corr_mismatch(case, "Gallina rename_map differs from _build_production_names")
    if meta:
        ctx.sample(meta[0])
    agl_correspondence(ctx, [b for m in meta for _, b in m["impl_rename_map"]])
    compile_level(ctx)
    default_switch_section(ctx)
    sparse_master_section(ctx)
    notdef_option_section(ctx)
    variable_section(ctx)


def agl_correspondence(ctx, finals):
    """the Gallina reader of generated names (Order/Agl.v, about which the decoding theorems are proved) against
    fontTools.agl.toUnicode, on the final names the implementation produced and on malformed variants of them
    (domain: components of the form uni<HEX>+ / u<HEX>+, scalar values only)"""
    import re
    from fontTools import agl
    rng = ctx.subrng("agl")
    names = set()
    for f in finals:
        names.add(f)
        if f.startswith("u"):
            names.add(f[:-1]); names.add(f + "0"); names.add(f.replace("_", "", 1)); names.add(f + "_" + f)
    for _ in range(ctx.budget(150, 1500)):
        k = rng.random()
        v = rng.choice([rng.randint(1, 0xFFFF), rng.randint(0x10000, 0x10FFFF), 0x41, 0xFFFF, 0x10000, 0x10FFFF, 0xD7FF, 0xE000])
        comp = ("uni%04X" % v if v <= 0xFFFF else "u%04X" % v) if k < 0.5 else rng.choice(["uni", "u"]) + "".join(rng.choice("0123456789ABCDEF") for _ in range(rng.randint(1, 9)))
        if rng.random() < 0.3:
            comp += "_" + ("uni%04X%04X" % (rng.randint(1, 0xD7FF), rng.randint(1, 0xD7FF)))
        if rng.random() < 0.3:
            comp += rng.choice([".alt", ".1", ".sc.1"])
        names.add(comp)
    ok = re.compile(r"^(uni[0-9A-F]+|u[0-9A-F]+)$")
    cases, meta = [], []
    for nm in sorted(names):
        comps = nm.split(".")[0].split("_")
        if not nm or not all(ok.match(c) for c in comps):
            continue
        vals = []
        bad = False
        for c in comps:
            digits = c[3:] if c.startswith("uni") else c[1:]
            chunks = [digits[j:j + 4] for j in range(0, len(digits), 4)] if c.startswith("uni") else [digits]
            if any(0xD800 <= int(ch, 16) <= 0xDFFF or int(ch, 16) > 0x10FFFF for ch in chunks if ch):
                bad = True
        if bad:
            continue
        ft = [agl.toUnicode(c) for c in comps]
        want = None if any(x == "" for x in ft) else [ord(ch) for x in ft for ch in x]
        cases.append(G.tup(G.s(nm), "(@None (list Z))" if want is None else "(Some %s)" % G.lst([G.z(v) for v in want], "Z")))
        meta.append({"name": nm, "fontTools_agl_toUnicode": want})
        ctx.count(); ctx.klass("agl-reader")
    vals = ctx.coq_eval("From U2F Require Import Base.Prelude Order.ProdNames Order.Agl.",
                        "fun c : (str * option (list Z)) => if option_eqb (list_eqb Z.eqb) (agl_decode (fst c)) (snd c) then 3 else 2",
                        cases, chunk=500, tag="Agl")
    for v, case in zip(vals, meta):
        if v is not None and v != 3:
            ctx.corr_mismatch(case, "Gallina agl_decode differs from fontTools.agl.toUnicode on a generated-style name")


def variable_section(ctx):
    """variable fonts (glyf+gvar and CFF2) from format-5 documents with TWO <variable-font> elements: one over the whole
    Weight axis, one over its upper half with its own default.  Production names on vs off: every table but the name carriers
    byte-identical; final names unique and legal; where every source taking part in a variable font supplies the same
    PostScript name for a glyph, that name is the final one (even cases: all masters agree; odd cases: the master at the low
    end, outside the second variable font, supplies other names than the two masters inside it)."""
    import re, ufo2ft
    from harness import dsgen
    from fontTools.ttLib import TTFont
    from fontTools.designspaceLib import VariableFontDescriptor, RangeAxisSubsetDescriptor
    rng = ctx.subrng("variable-names")
    for i in range(ctx.budget(8, 32)):
        lib = ["ufoLib2", "defcon"][i % 2]
        fn = ["compileVariableTTFs", "compileVariableCFF2s"][(i // 2) % 2]
        base = dsgen.base_master(rng, anchors=False)
        masters = [base] + [dsgen.perturb(rng, base, k) for k in (1, 2)]
        names = [g["name"] for g in base["glyphs"]]
        for k, m in enumerate(masters):
            pre = "low" if (i % 2 == 1 and k == 0) else "ps"
            m["lib"] = dict(m.get("lib", {}), **{"public.postscriptNames": {n: "%s_%s.x" % (pre, re.sub(r"[^A-Za-z0-9]", "", n)) for n in names[:-1]}})
        ds, fonts = dsgen.make_designspace(rng, masters, lib, instances=False)
        ds.formatVersion = "5.0"
        ds.addVariableFont(VariableFontDescriptor(name="Whole", axisSubsets=[RangeAxisSubsetDescriptor(name="Weight")]))
        ds.addVariableFont(VariableFontDescriptor(name="Upper", axisSubsets=[
            RangeAxisSubsetDescriptor(name="Weight", userMinimum=500, userDefault=500, userMaximum=900)]))
        inside = {"Whole": [0, 1, 2], "Upper": [1, 2]}
        case = {"function": fn, "lib": lib, "font": jsonable(masters[0]), "postscriptNames": [m["lib"]["public.postscriptNames"] for m in masters],
                "variable_fonts": {"Whole": "Weight 100..900 (default 100)", "Upper": "Weight 500..900 (default 500)"}}
        ctx.count(); ctx.klass("%s/two variable fonts/%s" % (fn, "low master names differ" if i % 2 else "same names")); ctx.nontriv(("vnames", i, ctx.scale))
        try:
            res = {}
            for upn in (True, False):
                out = getattr(ufo2ft, fn)(ds, useProductionNames=upn)
                for vf, tt in out.items():
                    buf = io.BytesIO(); tt.save(buf); buf.seek(0)
                    res[(vf, upn)] = TTFont(buf)
        except Exception as e:
            ctx.spec_failure(case, "%s raised %s: %s\n%s" % (fn, type(e).__name__, e, traceback.format_exc()[-1200:]))
            continue
        for vf in ("Whole", "Upper"):
            on, off = res.get((vf, True)), res.get((vf, False))
            if on is None or off is None:
                ctx.spec_failure(dict(case, variable_font=vf), "variable font %r was not built (got %r)" % (vf, sorted(res)))
                continue
            if sorted(on.keys()) != sorted(off.keys()):
                ctx.spec_failure(dict(case, variable_font=vf), "table sets differ: %r vs %r" % (sorted(on.keys()), sorted(off.keys())))
                continue
            for tag in on.reader.keys():
                if tag in ("post", "CFF2", "CFF "):
                    continue
                a, b = on.reader[tag], off.reader[tag]
                if tag == "head":
                    a, b = a[:8] + b"\0\0\0\0" + a[12:], b[:8] + b"\0\0\0\0" + b[12:]
                if a != b:
                    ctx.spec_failure(dict(case, variable_font=vf), "table %r of variable font %r differs between useProductionNames=True and False" % (tag, vf))
            final, orig = on.getGlyphOrder(), off.getGlyphOrder()
            if len(final) != len(orig) or len(set(final)) != len(final) or [n for n in final if re.search(r"[^0-9a-zA-Z_.]", n)]:
                ctx.spec_failure(dict(case, variable_font=vf, final=final), "final names of %r not unique / legal / complete: %r" % (vf, final))
                continue
            for idx, n in enumerate(orig):
                given = {masters[k]["lib"]["public.postscriptNames"].get(n) for k in inside[vf]}
                if len(given) == 1 and None not in given and final[idx] != next(iter(given)):
                    ctx.spec_failure(dict(case, variable_font=vf, glyph=n, final=final[idx]),
                                     "variable font %r: glyph %r is named %r although every source inside it supplies the PostScript name %r" % (
                                         vf, n, final[idx], next(iter(given))))
                    break


def default_switch_section(ctx):
    """the lib switches, when the caller passes no useProductionNames argument: the ufo2ft key decides if present; otherwise
    names are produced exactly when the font's lib HAS a public.postscriptNames entry (an empty map included -- "this font has
    been given production names, none differ") and the Glyphs legacy key does not forbid it.  Judged by comparing the glyph
    names of the default compile with those of the explicit-True and explicit-False compiles (keys stated here literally, not
    imported from ufo2ft)"""
    import ufo2ft
    UPN = "com.github.googlei18n.ufo2ft.useProductionNames"
    LEGACY = "com.schriftgestaltung.Don't use Production Names"
    glyphs = [{"name": n, "width": 500, "unicodes": [u] if u else [], "contours": [[(0, 0, "line"), (100 + k, 0, "line"), (50, 100, "line")]]}
              for k, (n, u) in enumerate([("space", 0x20), ("a", 0x61), ("a.alt", None), ("f_i", None), ("f", 0x66), ("i", 0x69), ("a-cy", 0x430), ("smile", 0x1F600)])]
    combos = [(u, l, p) for u in (None, True, False) for l in (None, True, False) for p in (None, {}, {"a": "A.prod", "f_i": "fi.prod"})]
    for i, (u, l, p) in enumerate(combos):
        for flavor in (("ttf",) if ctx.quick() and i % 3 else ("ttf", "otf")):
            lib = {}
            if u is not None:
                lib[UPN] = u
            if l is not None:
                lib[LEGACY] = l
            if p is not None:
                lib["public.postscriptNames"] = dict(p)
            desc = {"glyphs": glyphs, "lib": lib, "kerning": {}, "features": "", "glyphOrder": [g["name"] for g in glyphs]}
            comp = ufo2ft.compileTTF if flavor == "ttf" else ufo2ft.compileOTF
            case = {"font_lib": jsonable(lib), "flavor": flavor, "useProductionNames": None}
            ctx.count(); ctx.klass("default switch: ufo2ft key %r / legacy key %r / postscriptNames %s" % (u, l, "absent" if p is None else "empty" if not p else "given"))
            ctx.nontriv(("switch", i, flavor))
            try:
                got = comp(build_font(desc, ["ufoLib2", "defcon"][i % 2])).getGlyphOrder()
                on = comp(build_font(desc), useProductionNames=True).getGlyphOrder()
                off = comp(build_font(desc), useProductionNames=False).getGlyphOrder()
            except Exception as e:
                ctx.spec_failure(case, "compile raised %s: %s\n%s" % (type(e).__name__, e, traceback.format_exc()[-1000:]))
                continue
            want_on = u if u is not None else (not l and p is not None)
            if got != (on if want_on else off):
                ctx.spec_failure(dict(case, names=got, names_when_on=on, names_when_off=off),
                                 "without an argument the glyph names are %r; the lib switches ask for production names %s, i.e. %r" % (
                                     got, "ON" if want_on else "OFF", on if want_on else off))


def sparse_master_section(ctx):
    """interpolatable master sets with a SPARSE layer master (its glyphs carry their code points, as the default layer's do):
    with production names on, a glyph has the same final name in every master that contains it -- the sparse master is renamed
    like the full ones -- and with names off every master keeps the source names"""
    import ufo2ft
    from harness import dsgen
    from fontTools.designspaceLib import SourceDescriptor
    rng = ctx.subrng("sparse-names")
    sq = lambda x, d: [[(Fr(x), Fr(0), "line"), (Fr(x + d), Fr(0), "line"), (Fr(x + d), Fr(d), "line"), (Fr(x), Fr(d), "line")]]
    for i in range(ctx.budget(6, 12)):
        lib = ["ufoLib2", "defcon"][i % 2]
        fn = ["compileInterpolatableTTFsFromDS", "compileInterpolatableOTFsFromDS"][(i // 2) % 2]
        how = ["argument", "postscriptNames in the lib", "argument"][(i // 4) % 3]

        def master(k):
            gl = [{"name": "e", "unicodes": [0x65], "width": Fr(500 + 10 * k), "contours": sq(10, 300 + 10 * k), "components": [], "anchors": []},
                  {"name": "e.alt", "unicodes": [], "width": Fr(500 + 10 * k), "contours": sq(20, 280 + 10 * k), "components": [], "anchors": []},
                  {"name": "a", "unicodes": [0x61], "width": Fr(520), "contours": sq(5, 200 + k), "components": [], "anchors": []}]
            lb = {"public.postscriptNames": {"e": "E.prod", "e.alt": "E.prod.alt", "a": "A.prod"}} if how.startswith("postscript") else {}
            return {"glyphs": gl, "glyphOrder": ["e", "e.alt", "a"], "kerning": {}, "groups": {}, "lib": lb,
                    "info": {"familyName": "Fam", "styleName": "M%d" % k, "unitsPerEm": 1000, "ascender": 800, "descender": -200}}
        case = {"function": fn, "lib": lib, "production_names_by": how, "font": jsonable(master(0)), "sparse_layer": ["e", "e.alt"]}
        ctx.count(); ctx.klass("sparse master names: %s / %s" % (fn, how)); ctx.nontriv(("spn", i, ctx.scale))
        try:
            outs = {}
            for upn in (True, False):
                ds, fonts = dsgen.make_designspace(rng, [master(0), master(2)], lib, instances=False)
                layer = fonts[0].newLayer("Medium")
                tmp = build_font(master(1), lib)
                for n in ("e", "e.alt"):
                    g = layer.newGlyph(n); g.width = tmp[n].width; tmp[n].drawPoints(g.getPointPen())
                    g.unicodes = list(tmp[n].unicodes)
                sd = SourceDescriptor()
                sd.font, sd.layerName, sd.location, sd.name = fonts[0], "Medium", {"Weight": 500}, "master.Medium"
                sd.familyName, sd.styleName = "Fam", "Medium"
                ds.sources.insert(1, sd)
                kw = {"useProductionNames": upn} if how == "argument" or not upn else {}
                outs[upn] = {s_.name: s_.font.getGlyphOrder() for s_ in getattr(ufo2ft, fn)(ds, **kw).sources}
        except Exception as e:
            ctx.spec_failure(case, "%s raised %s: %s\n%s" % (fn, type(e).__name__, e, traceback.format_exc()[-1000:]))
            continue
        on, off = outs[True], outs[False]
        full = on["master.0"]
        want = dict(zip(off["master.0"], full))
        if off["master.Medium"] != [".notdef", "e", "e.alt"] or off["master.0"] != [".notdef", "e", "e.alt", "a"]:
            ctx.spec_failure(dict(case, names_off=off), "with names off the masters are named %r" % off)
        elif full == off["master.0"] or on["master.Medium"] != [want[n] for n in off["master.Medium"]] or on["master.1"] != full:
            ctx.spec_failure(dict(case, names_on=on, names_off=off),
                             "with production names on the masters are named %r: the sparse master's glyphs should be called %r like in the full masters" % (
                                 on, [want[n] for n in off["master.Medium"]]))


def notdef_option_section(ctx):
    """a font without a '.notdef' of its own, compiled with a glyph handed in through the notdefGlyph option -- a glyph object
    that has a name (and possibly a code point) of its own: glyph 0 is '.notdef' with production names on and off, the font
    saves, and nothing but the name carriers differs between the two (F45)"""
    import ufo2ft
    from fontTools.ttLib import TTFont
    tri = lambda k: [[(0, 0, "line"), (100 + k, 0, "line"), (50, 100, "line")]]
    for i in range(ctx.budget(12, 24)):
        lib = ["ufoLib2", "defcon"][i % 2]
        flavor, kw = [("ttf", {}), ("otf", {"cffVersion": 1}), ("otf", {"cffVersion": 2})][(i // 2) % 3]
        nd_name, nd_uni = [("box", []), ("missing", []), ("a.alt", []), ("f_i.alt", [])][(i // 6) % 4]   # (no code point: one would name it uniXXXX by the rule)
        glyphs = [{"name": n, "width": 500, "unicodes": [u] if u else [], "contours": tri(k)}
                  for k, (n, u) in enumerate([("space", 0x20), ("a", 0x61), ("f", 0x66), ("i", 0x69), ("f_i", None)])]
        desc = {"glyphs": glyphs, "lib": {}, "kerning": {("a", "f"): -20}, "features": "feature liga { sub f i by f_i; } liga;",
                "glyphOrder": [g["name"] for g in glyphs]}
        nd_desc = {"glyphs": [{"name": nd_name, "width": 600, "unicodes": nd_uni,
                               "contours": [[(50, 0, "line"), (550, 0, "line"), (550, 700, "line"), (50, 700, "line")]]}], "lib": {}, "kerning": {}, "features": ""}
        comp = ufo2ft.compileTTF if flavor == "ttf" else ufo2ft.compileOTF
        case = {"font": jsonable(desc), "lib": lib, "flavor": flavor, "options": kw, "notdefGlyph": jsonable(nd_desc["glyphs"][0])}
        ctx.count(); ctx.klass("notdefGlyph option: %s%s, glyph named %r" % (flavor, kw.get("cffVersion", ""), nd_name)); ctx.nontriv(("ndopt", i, ctx.scale))
        try:
            fonts = []
            for upn in (True, False):
                ndf = build_font(nd_desc, lib)          # (kept alive: a defcon glyph knows its layer only while the font lives)
                nd = ndf[nd_name]
                tt = comp(build_font(desc, lib), useProductionNames=upn, notdefGlyph=nd, **kw)
                buf = io.BytesIO(); tt.save(buf); buf.seek(0)
                fonts.append(TTFont(buf))
        except Exception as e:
            ctx.spec_failure(case, "compile + save with a notdefGlyph option raised %s: %s\n%s" % (type(e).__name__, e, traceback.format_exc()[-1000:]))
            continue
        on, off = fonts
        for what, f in (("on", on), ("off", off)):
            o = f.getGlyphOrder()
            if o[0] != ".notdef" or len(o) != len(glyphs) + 1 or len(set(o)) != len(o):
                ctx.spec_failure(dict(case, names=o), "with production names %s the glyph order is %r: glyph 0 must be '.notdef' (the glyph handed in as "
                                 "notdefGlyph, whatever it is called), followed by the %d glyphs of the font" % (what, o, len(glyphs)))
        if on.getGlyphOrder()[1:] != ["uni0020", "uni0061", "uni0066", "uni0069", "uni00660069"] or off.getGlyphOrder()[1:] != ["space", "a", "f", "i", "f_i"]:
            ctx.spec_failure(dict(case, names=on.getGlyphOrder()), "final names %r" % on.getGlyphOrder())
        if "cmap" in on and any(n not in on.getGlyphOrder() for n in on.getBestCmap().values()):
            ctx.spec_failure(dict(case, cmap=jsonable(on.getBestCmap())), "the character map refers to %r" % on.getBestCmap())
        for tag in on.reader.keys():
            if tag in ("post", "CFF ", "CFF2"):
                continue
            a, b = on.reader[tag], off.reader[tag]
            if tag == "head":
                a, b = a[:8] + b"\0\0\0\0" + a[12:], b[:8] + b"\0\0\0\0" + b[12:]
            if a != b:
                ctx.spec_failure(case, "table %r differs between useProductionNames=True and False" % tag)


def compile_level(ctx):
    import ufo2ft
    from fontTools.ttLib import TTFont
    rng = ctx.subrng("bytes")
    for i in range(ctx.budget(12, 80)):
        items, order, ps = gen(rng)
        items = [(n, u) for n, u in items if len(n) < 64 and n not in ("nul",)]
        glyphs = []
        for n, u in items:
            glyphs.append({"name": n, "width": 500, "unicodes": [u] if u else [],
                           "contours": [[(0, 0, "line"), (100 + len(n), 0, "line"), (50, 100, "line")]]})
        if i % 2 == 0 and not any(g["name"] in ("Ohm", "Ohm.alt") for g in glyphs):
            # a glyph with SEVERAL code points whose first (primary) one is not the numerically smallest, and a suffixed variant
            glyphs.append({"name": "Ohm", "width": 500, "unicodes": [0x2126, 0x3A9], "contours": [[(0, 0, "line"), (120, 0, "line"), (60, 90, "line")]]})
            glyphs.append({"name": "Ohm.alt", "width": 500, "unicodes": [], "contours": [[(0, 0, "line"), (121, 0, "line"), (60, 90, "line")]]})
        if not any(g["name"] == "a" for g in glyphs):
            glyphs.append({"name": "a", "width": 500, "unicodes": [0x61], "contours": [[(0, 0, "line"), (9, 0, "line"), (5, 9, "line")]]})
        if i % 4 == 0 and not any(g["name"] == "a_" * 14 + "a" for g in glyphs):
            # a ligature of fifteen parts: its generated name, uni + 15 x 4 hex digits, is EXACTLY 63 characters -- the longest legal name
            glyphs.append({"name": "a_" * 14 + "a", "width": 900, "unicodes": [], "contours": [[(0, 0, "line"), (11, 0, "line"), (5, 9, "line")]]})
        if i % 2 == 1:
            # the customary NULL glyph: U+0000 is a code point like any other (uni0000), and so is its suffixed variant
            glyphs.append({"name": "NULL", "width": 0, "unicodes": [0], "contours": []})
            glyphs.append({"name": "NULL.alt", "width": 10, "unicodes": [], "contours": []})
        desc = {"glyphs": glyphs, "lib": {}, "kerning": {}, "features": ""}
        names = [g["name"] for g in glyphs]
        # some layout so that GSUB/GPOS/GDEF exist and refer to glyph indices
        if "f_i" in names and "f" in names and "i" in names:
            desc["features"] = "feature liga { sub f i by f_i; } liga;"
        if "A" in names and "a" in names:
            desc["kerning"] = {("A", "a"): -20}
        if ps:
            # .notdef must keep its name (a CFF charset starts with .notdef; renaming it is a user error)
            desc["lib"]["public.postscriptNames"] = {k: v for k, v in ps.items() if k in names and v and k != ".notdef"}
        import re as _re2
        if i % 4 == 1:
            for k, nm in enumerate(("swapA", "swapB", "swapC")):
                if nm not in names:
                    glyphs.append({"name": nm, "width": 510 + k, "unicodes": [], "contours": [[(0, 0, "line"), (60 + 9 * k, 0, "line"), (30, 70 + k, "line")]]})
                    names.append(nm)
        if i % 4 == 3 and "A" not in names:
            glyphs.append({"name": "A", "width": 520, "unicodes": [0x41], "contours": [[(0, 0, "line"), (66, 0, "line"), (33, 80, "line")]]})
            names.append("A")
        plain = [n for n in ("swapA", "swapB", "swapC") if n in names]
        if i % 4 == 1 and len(plain) >= 3:
            # renames that CROSS: two glyphs swap their names, a third takes the old name of the first of a chain -- a rename
            # that is not done all at once hands one glyph's drawing to another
            desc["lib"]["public.postscriptNames"] = {plain[0]: plain[1], plain[1]: plain[0], plain[2]: plain[2] + ".x"}
            ctx.klass("bytes: crossing renames (swap)")
        elif i % 4 == 3 and "A" in names and "uni0041" not in names:
            # a glyph LITERALLY named like the generated name of an earlier one
            glyphs.append({"name": "uni0041", "width": 500, "unicodes": [], "contours": [[(0, 0, "line"), (77, 0, "line"), (30, 90, "line")]]})
            names.append("uni0041")
            ctx.klass("bytes: literal uniXXXX name after the glyph that generates it")
        if i % 4 == 2:
            # a lib switch that the EXPLICIT useProductionNames argument overrides (both ways): asking not to keep glyph names
            desc["lib"]["com.github.googlei18n.ufo2ft.keepGlyphNames"] = False
            ctx.klass("bytes: keepGlyphNames=False in the lib, explicit argument given")
        flavor, kw = [("ttf", {}), ("otf", {"cffVersion": 1}), ("otf", {"cffVersion": 2})][i % 3]
        if i % 4 in (1, 3):
            # (the crossing-rename and literal-name cases: CFF first, then CFF2, then TrueType)
            flavor, kw = [("otf", {"cffVersion": 1}), ("otf", {"cffVersion": 2}), ("ttf", {})][(i // 4) % 3]
        comp = ufo2ft.compileTTF if flavor == "ttf" else ufo2ft.compileOTF
        case = {"font": jsonable(desc), "flavor": flavor, "options": kw}
        try:
            fonts = []
            for upn in (True, False):
                tt = comp(build_font(desc), useProductionNames=upn, **kw)
                buf = io.BytesIO(); tt.save(buf); buf.seek(0)
                fonts.append(TTFont(buf))
            # the final names do not depend on the outline format: the other two flavours must hand out the very same names
            others = {}
            for fl2, kw2 in [("ttf", {}), ("otf", {"cffVersion": 1}), ("otf", {"cffVersion": 2})]:
                if (fl2, kw2) != (flavor, kw):
                    t2 = (ufo2ft.compileTTF if fl2 == "ttf" else ufo2ft.compileOTF)(build_font(desc), useProductionNames=True, **kw2)
                    buf = io.BytesIO(); t2.save(buf); buf.seek(0)
                    others[fl2 + str(kw2.get("cffVersion", ""))] = TTFont(buf).getGlyphOrder()
        except Exception as e:
            ctx.spec_failure(case, "compile raised %s: %s\n%s" % (type(e).__name__, e, traceback.format_exc()[-1200:]))
            continue
        on, off = fonts
        # (a source name made only of illegal characters is stripped to the empty string, which a 'post' table cannot carry:
        # fontTools reads it back as glyphNNNNN -- such fonts are left out of the cross-flavour comparison and counted)
        if "" in on.getGlyphOrder() or any("" in o for o in others.values()):
            ctx.klass("empty final name (cross-flavour comparison skipped)")
            others = {}
        for fl2, order2 in others.items():
            if order2 != on.getGlyphOrder():
                ctx.spec_failure(dict(case, other_flavor=fl2), "final glyph names differ between %s%s %r and %s %r" % (
                    flavor, kw.get("cffVersion", ""), on.getGlyphOrder(), fl2, order2))
        ctx.count()
        ctx.klass("bytes:%s%s" % (flavor, kw.get("cffVersion", "")))
        ctx.nontriv(("bytes", i, ctx.scale))
        carriers = {"post", "CFF ", "CFF2"}
        if sorted(on.keys()) != sorted(off.keys()):
            ctx.spec_failure(case, "table sets differ: %r vs %r" % (sorted(on.keys()), sorted(off.keys())))
            continue
        for tag in on.reader.keys():
            if tag in carriers:
                continue
            a, b = on.reader[tag], off.reader[tag]
            if tag == "head":
                a, b = a[:8] + b"\0\0\0\0" + a[12:], b[:8] + b"\0\0\0\0" + b[12:]
            if a != b:
                ctx.spec_failure(case, "table %r differs between useProductionNames=True and False" % tag)
        # the glyph-name carriers hold the OUTLINES of a CFF / CFF2 font too: glyph k draws the same with names on and off
        if "glyf" not in on and on.getGlyphOrder() and len(on.getGlyphOrder()) == len(off.getGlyphOrder()) and "" not in on.getGlyphOrder():
            from fontTools.pens.recordingPen import RecordingPen
            gs_on, gs_off = on.getGlyphSet(), off.getGlyphSet()
            for k, (n_on, n_off) in enumerate(zip(on.getGlyphOrder(), off.getGlyphOrder())):
                p1, p0 = RecordingPen(), RecordingPen()
                try:
                    gs_on[n_on].draw(p1); gs_off[n_off].draw(p0)
                except Exception as e:
                    ctx.spec_failure(dict(case, glyph_index=k), "glyph #%d cannot be drawn (%s: %s)" % (k, type(e).__name__, e))
                    break
                if p1.value != p0.value or gs_on[n_on].width != gs_off[n_off].width:
                    ctx.spec_failure(dict(case, glyph_index=k, name_on=n_on, name_off=n_off),
                                     "glyph #%d (%r, named %r with production names) draws differently with production names on" % (k, n_off, n_on))
                    break
        final = on.getGlyphOrder()
        if len(set(final)) != len(final):
            ctx.spec_failure(case, "final glyph names are not unique: %r" % final)
        import re
        bad = [n for n in final if re.search(r"[^0-9a-zA-Z_.]", n)]
        if bad:
            ctx.spec_failure(case, "illegal characters in final names %r" % bad)
        if len(final) != len(off.getGlyphOrder()):
            ctx.spec_failure(case, "glyph count changed")
        # names: lib-supplied, else uniXXXX from the code point
        o_off = off.getGlyphOrder()
        psn = desc["lib"].get("public.postscriptNames")
        for idx, n in enumerate(o_off):
            g = next((g for g in glyphs if g["name"] == n), None)
            if g is None:
                continue
            if psn:
                want = psn.get(n)
                if want and re.sub(r"[^0-9a-zA-Z_.]", "", want) and len(re.sub(r"[^0-9a-zA-Z_.]", "", want)) <= 63 and \
                        not final[idx].startswith(re.sub(r"[^0-9a-zA-Z_.]", "", want)):
                    ctx.spec_failure(case, "glyph %r: lib name %r not used (got %r)" % (n, want, final[idx]))
            elif g["unicodes"]:
                u = g["unicodes"][0]
                want = ("u%04X" if u > 0xFFFF else "uni%04X") % u
                if not final[idx].startswith(want):
                    ctx.spec_failure(case, "glyph %r (U+%04X) is named %r, expected %s" % (n, u, final[idx], want))
            elif n == "a_" * 14 + "a" and not psn and final[idx] != "uni" + "0061" * 15:
                ctx.spec_failure(case, "the fifteen-part ligature is named %r; its generated name %r has 63 characters, which is legal" % (final[idx], "uni" + "0061" * 15))
            elif n == "NULL.alt" and not psn and not final[idx].startswith("uni0000.alt"):
                ctx.spec_failure(case, "glyph 'NULL.alt' is named %r, expected uni0000.alt (U+0000 is the base glyph's code point)" % final[idx])
            elif n == "Ohm.alt" and not psn and not final[idx].startswith("uni2126.alt"):
                ctx.spec_failure(case, "glyph 'Ohm.alt' is named %r, expected uni2126.alt (suffix kept on the base glyph's primary code point)" % final[idx])
