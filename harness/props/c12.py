"""C12 -- CFF optimisation, subroutiniser and version never change what is drawn."""
import io, itertools, traceback
from fractions import Fraction as Fr
from harness import gterm as G, geom
from harness.fonts import build_font, gen_component_font, jsonable, number_range_error

PID = "C12"
LEVEL_TEXT = ("PARTIAL. Proved in Coq: the process_cff decision logic with the constants read from the source -- for a CFF 1 input "
              "(what ufo2ft always builds) the only unsupported requested combination is compreffor with CFF2 output, every other "
              "one leaves the table alone, converts 1->2 or subroutinises into the requested version; the specialisation switch "
              "is on from SPECIALIZE upwards. The model's decision is compared with which combinations actually raise. That the "
              "specialiser, both subroutinisers and the CFF->CFF2 converter preserve drawing operations is library behaviour: it "
              "is observed on the implementation (RecordingPen operations, hmtx and GSUB/GPOS/GDEF bytes identical across the "
              "3 x 3 x 2 grid for every generated font), not modelled. The advance a 'CFF ' table carries IS modelled and proved "
              "(Cff/Width.v, C12_cff_charstring_width_roundtrip): for every advance and every (defaultWidthX, nominalWidthX) the "
              "charstring operand ufo2ft writes, decoded with the Private dict ufo2ft writes (entries only when non-zero), gives "
              "the rounded source advance -- compared per glyph and build with the compiled Private dict and the advance "
              "fontTools decodes from the charstring.")
LEVEL_NOTE = ("Trusted: Coq kernel, constants reader, harness. fontTools cffLib specializer/CFFToCFF2, cffsubr (tx), compreffor "
              "are environment; rendering equality is an observation over generated fonts.")
TECHNIQUE = "Coq proof of the CFF decision table (regenerated constants) and of the CFF width encode/decode round trip + correspondence + observed rendering equality over the option grid"
IMPORTS = "From U2F Require Import Base.Prelude Cff.Decision."
RULE = ("random component fonts (lines, cubics, quadratics, integer coordinates so that every level rounds alike, kerning + a "
        "liga feature for layout tables; half of them renamed through public.postscriptNames maps that swap, chain or are plain) compiled under optimizeCFF {0,1,2} x subroutinizer {None,cffsubr,compreffor} x cffVersion "
        "{1,2}; every glyph's drawing operations (by glyph index; a straight axis-parallel run of two lines folded by the specialiser counts as the same outline), glyph order, hmtx and layout table bytes compared with the (0,None,1) build. Non-trivial = "
        "font has >= 2 glyphs with curves (so subroutinisation/specialisation has something to do)."
        " Variable CFF2 built under optimizeCFF 0/1/2 from masters with a point on an edge in one master only, instantiated at four locations.")
ASSUMPTIONS = ["RecordingPen faithfully reports the drawing operations of a charstring"]

FN = ("fun c : (Z * option backend * Z * Z) => let '(opt, subr, outv, obs) := c in "
      "if Z.eqb (action_code (process_cff opt subr 1 (Some outv))) obs then 3 else "
      "(* obs 0 = raised NotImplementedError, 1 = compiled *) "
      "if Z.eqb obs 1 && negb (Z.eqb (action_code (process_cff opt subr 1 (Some outv))) 0) then 3 else 2")

GRID = list(itertools.product([0, 1, 2], [None, "cffsubr", "compreffor"], [1, 2]))


def postprocess_section(ctx):
    """PostProcessor.process on fonts that ALREADY carry 'CFF ' or 'CFF2' (the route of the variable compilers and of callers
    that post-process a compiled font), over the whole grid level x subroutiniser x requested version (and 'same as input'):
    either NotImplementedError is raised or the result carries the table of the requested version -- as the Gallina
    process_cff says for that input version -- and draws what the input drew"""
    import ufo2ft
    from fontTools.ttLib import TTFont
    from fontTools.pens.recordingPen import RecordingPen
    from ufo2ft.postProcessor import PostProcessor
    desc = {"glyphs": [{"name": n, "unicodes": [u], "width": 500 + 20 * k, "components": [], "anchors": [],
                        "contours": [[(Fr(0), Fr(0), "line"), (Fr(200 + 10 * k), Fr(0), "line"), (Fr(100), Fr(300 + k), "line")]]}
                       for k, (n, u) in enumerate((("a", 0x61), ("b", 0x62), ("c", 0x63)))]}
    cases, meta = [], []
    for inv in (1, 2):
        src = ufo2ft.compileOTF(build_font(desc), cffVersion=inv, optimizeCFF=0, useProductionNames=False)
        buf = io.BytesIO(); src.save(buf); data = buf.getvalue()
        gs0 = TTFont(io.BytesIO(data)).getGlyphSet()
        want_draw = {}
        for n in ("a", "b", "c"):
            p = RecordingPen(); gs0[n].draw(p); want_draw[n] = p.value
        # (the version argument given -- None = "same as the input" -- or left out altogether: the documented default is the same)
        for opt, subr, outv in list(GRID) + [(o, sb, v) for v in (None, "omitted") for o in (0, 1, 2) for sb in (None, "cffsubr", "compreffor")]:
            case = {"input_table": "CFF " if inv == 1 else "CFF2", "options": {"optimizeCFF": opt, "subroutinizer": subr, "cffVersion": outv}}
            ctx.count(); ctx.klass("post-process a compiled %s font%s" % (case["input_table"].strip(), " (no cffVersion argument)" if outv == "omitted" else ""))
            kw = {"optimizeCFF": opt, "cffVersion": outv}
            if outv == "omitted":
                del kw["cffVersion"]
                outv = None
            if subr:
                kw["subroutinizer"] = subr
            obs, got = None, None
            try:
                out = PostProcessor(TTFont(io.BytesIO(data)), build_font(desc)).process(useProductionNames=False, **kw)
                b2 = io.BytesIO(); out.save(b2); got = TTFont(io.BytesIO(b2.getvalue()))
                obs = 1 if "CFF " in got else (2 if "CFF2" in got else 9)
            except NotImplementedError:
                obs = 0
            except Exception as e:
                ctx.spec_failure(case, "PostProcessor.process raised %s: %s\n%s" % (type(e).__name__, e, traceback.format_exc()[-800:]))
                continue
            if got is not None:
                gs = got.getGlyphSet()
                for n in ("a", "b", "c"):
                    p = RecordingPen(); gs[n].draw(p)
                    from harness import geom as _g
                    if _g.recorded_to_segments(p.value) != _g.recorded_to_segments(want_draw[n]):
                        ctx.spec_failure(dict(case, glyph=n), "post-processing changed what %r draws" % n)
                        break
            sub = "(@None backend)" if subr is None else "(Some %s)" % ("Cffsubr" if subr == "cffsubr" else "Compreffor")
            cases.append(G.tup(G.tup(G.z(opt), sub), G.tup(G.z(inv), G.opt(None if outv is None else G.z(outv), "Z")), G.z(obs)))
            meta.append(dict(case, observed={0: "NotImplementedError", 1: "result carries 'CFF '", 2: "result carries 'CFF2'", 9: "neither table"}[obs]))
    vals = ctx.coq_eval(IMPORTS,
                        "fun c : ((Z * option backend) * (Z * option Z) * Z) => let '((opt, subr), (inv, outv), obs) := c in "
                        "let o := match outv with None => inv | Some v => v end in "
                        "let a := action_code (process_cff opt subr inv outv) in "
                        "if Z.eqb a 0 then (if Z.eqb obs 0 then 3 else 0) else (if Z.eqb obs o then 3 else if Z.eqb obs 0 then 2 else 0)",
                        cases, chunk=100, tag="PostProc")
    for v, case in zip(vals, meta):
        if v is None or v == 3:
            continue
        if v == 0:
            ctx.spec_failure(case, "an unsupported combination did not raise NotImplementedError, or the result does not carry the table of "
                                   "the requested version (%s)" % case["observed"])
        else:
            ctx.corr_mismatch(case, "NotImplementedError where the Gallina process_cff has an action")


def variable_section(ctx):
    """compileVariableCFF2 under optimizeCFF 0/1/2: the masters must be merged unspecialised whatever the level, so the
    variable font draws the same at every location.  Masters in which a point lies exactly on a horizontal / vertical edge
    in one master only (a run the specialiser would fold) are where a per-master optimisation shows."""
    import ufo2ft
    from fontTools.ttLib import TTFont
    from fontTools.varLib import instancer
    from harness import dsgen
    rng = ctx.subrng("var-cff2")
    for i in range(ctx.budget(3, 12)):
        j = [rng.randint(5, 40) for _ in range(4)]
        def master(k):
            d = 60 * k
            # A: the point (300, 0) sits on the bottom edge in master 0, below it in master 1
            A = [(Fr(0), Fr(0), "line"), (Fr(300), Fr(0 - (j[0] if k else 0)), "line"), (Fr(600 + d), Fr(0), "line"),
                 (Fr(600 + d), Fr(700), "line"), (Fr(0), Fr(700), "line")]
            # C: one point on the bottom edge in master 0 only, another on the right edge in master 1 only
            C = [(Fr(0), Fr(0), "line"), (Fr(300), Fr(0 if k == 0 else -j[1]), "line"), (Fr(600), Fr(0), "line"),
                 (Fr(600 + (0 if k == 1 else j[2])), Fr(350), "line"), (Fr(600), Fr(700), "line"), (Fr(0), Fr(700), "line")]
            gl = [{"name": "A", "unicodes": [0x41], "width": Fr(700 + d), "contours": [A], "components": [], "anchors": []},
                  {"name": "C", "unicodes": [0x43], "width": Fr(700), "contours": [C], "components": [], "anchors": []}]
            return {"glyphs": gl, "glyphOrder": ["A", "C"], "kerning": {("A", "C"): Fr(-20 - d)}, "groups": {}, "lib": {},
                    "info": {"familyName": "Fam", "styleName": "M%d" % k, "unitsPerEm": 1000, "ascender": 800, "descender": -200}}
        masters = [master(0), master(1)]
        lib = ["ufoLib2", "defcon"][i % 2]
        base_draw = None
        for opt in (0, 1, 2):
            case = {"function": "compileVariableCFF2", "optimizeCFF": opt, "lib": lib, "font": jsonable(masters[0]), "last_master": jsonable(masters[1])}
            ctx.count(); ctx.klass("variable CFF2/opt%d" % opt); ctx.nontriv(("vcff2", i, opt, ctx.scale))
            try:
                ds, _ = dsgen.make_designspace(rng, masters, lib, instances=False)
                vf = ufo2ft.compileVariableCFF2(ds, optimizeCFF=opt)
                b = io.BytesIO(); vf.save(b)
                draws = {}
                for loc in (100, 300, 500, 900):
                    inst = instancer.instantiateVariableFont(TTFont(io.BytesIO(b.getvalue())), {"wght": loc})
                    gs = inst.getGlyphSet()
                    draws[loc] = {n: [geom.cyc_canon(geom.merge_axis_lines(sg)) for sg in geom.recorded_to_segments(geom.drawn_segments(gs[n]))]
                                  for n in ("A", "C")}
                    draws[loc]["hmtx"] = dict(inst["hmtx"].metrics)
            except Exception as e:
                ctx.spec_failure(case, "compileVariableCFF2(optimizeCFF=%d) raised %s: %s\n%s" % (opt, type(e).__name__, e, traceback.format_exc()[-800:]))
                continue
            if base_draw is None:
                base_draw = draws
            elif draws != base_draw:
                bad = next((loc, n) for loc in draws for n in draws[loc] if draws[loc][n] != base_draw[loc][n])
                ctx.spec_failure(dict(case, location=bad[0], glyph=bad[1]), "variable CFF2 built with optimizeCFF=%d draws %r differently at wght=%s "
                                 "than the optimizeCFF=0 build" % (opt, bad[1], bad[0]))


def explore(ctx):
    postprocess_section(ctx)
    import ufo2ft
    from fontTools.ttLib import TTFont
    rng = ctx.subrng("cff")
    cases, meta = [], []
    wcases, wmeta = [], []
    for i in range(ctx.budget(8, 40)):
        desc = gen_component_font(rng, n=rng.randint(3, 8), widths="int")
        for g in desc["glyphs"]:   # integer coordinates/offsets: rounding is not what is under test here
            g["contours"] = [[(Fr(round(x)), Fr(round(y)), t) for x, y, t in c] for c in g["contours"]]
            g["components"] = [(b, tuple(t[:4]) + (Fr(round(t[4])), Fr(round(t[5])))) for b, t in g["components"]]
        names = [g["name"] for g in desc["glyphs"]]
        desc["kerning"] = {(names[0], names[1]): -30}
        desc["features"] = "feature liga { sub %s %s by %s; } liga;" % (names[0], names[1], names[2])
        # glyph naming is orthogonal to the CFF options: half of the fonts are renamed through public.postscriptNames,
        # with maps that swap two names, chain (a->b, b->c) or are plain
        prod = i % 2 == 1
        if prod:
            kind = ["swap", "collide", "chain", "plain"][(i // 2) % 4]
            a, b, c = names[0], names[1], names[2]
            desc["glyphOrder"] = list(names)      # the production names are handed out in glyph order
            # collide: two glyphs get the same production name (the second is de-duplicated to "dup.1") and a later glyph
            # is literally given that de-duplicated name
            desc["lib"] = {"public.postscriptNames": {"swap": {a: b, b: a}, "chain": {a: b, b: c, c: "glyph.c"},
                                                      "plain": {a: "uni0041.x", b: "glyph00002"},
                                                      "collide": {a: "dup", b: "dup", c: "dup.1"}}[kind]}
        # the advance a 'CFF ' table carries is encoded relative to the Private dict's nominalWidthX / defaultWidthX: fonts
        # where zero is the most frequent advance (defaultWidthX = 0) and fonts that set the two values explicitly
        wkind = ["half-integer", "plain", "mostly-zero-width", "explicit-default-0", "half-integer-odd", "explicit-both", "explicit-fractional", "plain"][i % 8]
        if wkind.startswith("half-integer"):
            # advances ending in .5, with even and with odd integer parts (rounding ties: hmtx rounds them up, the charstring
            # operand width - nominalWidthX must land on the same integer)
            for k, g in enumerate(desc["glyphs"]):
                g["width"] = Fr(400 + 3 * k + (1 if wkind.endswith("odd") else 0)) + Fr(1, 2)
        if wkind == "mostly-zero-width":
            for g in desc["glyphs"][:-1]:
                g["width"] = Fr(0)
            desc["glyphs"][-1]["width"] = Fr(620)
        elif wkind == "explicit-default-0":
            desc["info"] = dict(desc.get("info", {}), postscriptDefaultWidthX=0, postscriptNominalWidthX=543)
        elif wkind == "explicit-fractional":
            # the two explicit values need not be integers in the source (612.5, 20.25): whatever the Private dict then holds,
            # the advance a charstring carries is the integer advance of hmtx
            desc["info"] = dict(desc.get("info", {}), postscriptDefaultWidthX=[20.25, 500.5][(i // 8) % 2], postscriptNominalWidthX=[612.5, 431.5][(i // 8) % 2])
        elif wkind == "explicit-both":
            desc["info"] = dict(desc.get("info", {}), postscriptDefaultWidthX=int(desc["glyphs"][0]["width"]), postscriptNominalWidthX=-20)
        # font names are orthogonal to the CFF options too: names outside ASCII / Latin-1 (the strings of a 'CFF ' table are
        # stored in those encodings, CFF2 has none) must not make SOME option combinations fail
        nm = [None, "\u0152uvre d\u2019Art", None, "Caf\u00e9 \u0100", None, "\u20ac \u00ff"][i % 6]
        if nm:
            desc["info"] = dict(desc.get("info", {}), familyName=nm, postscriptWeightName=["Regular", "\u00e9paisse"][(i // 6) % 2])
            ctx.klass("cff: family name outside ASCII")
        ctx.klass("cff widths:" + wkind)
        base = None
        for opt, subr, ver in GRID:
            kw = {"optimizeCFF": opt, "cffVersion": ver, "useProductionNames": prod}
            if subr:
                kw["subroutinizer"] = subr
            case = {"font": jsonable(desc), "options": kw}
            ctx.count()
            raised = False
            try:
                tt = ufo2ft.compileOTF(build_font(desc), **kw)
                buf = io.BytesIO(); tt.save(buf); buf.seek(0); tt = TTFont(buf)
            except NotImplementedError:
                raised = True
            except Exception as e:
                if number_range_error(e):
                    # an extreme of the random outlines (with a zero advance) lies beyond what a 16-bit hhea / head field can
                    # hold: no font exists for this input (OpenType number range), whatever the CFF options
                    ctx.klass("outside_opentype_number_range_rejected")
                    break
                ctx.spec_failure(case, "compileOTF raised %s: %s\n%s" % (type(e).__name__, e, traceback.format_exc()[-1000:]))
                continue
            sub = "(@None backend)" if subr is None else "(Some %s)" % ("Cffsubr" if subr == "cffsubr" else "Compreffor")
            cases.append(G.tup(G.z(opt), sub, G.z(ver), G.z(0 if raised else 1)))
            meta.append(dict(case, raised=raised))
            ctx.klass("opt%d/%s/cff%d%s" % (opt, subr, ver, ":raises" if raised else ""))
            if prod and (opt, subr, ver) == GRID[0]:
                ctx.klass("renamed:" + kind)
            if raised:
                continue
            gs = tt.getGlyphSet()
            order = tt.getGlyphOrder()
            obs = {"draw": {k: geom.drawn_segments(gs[order[k]]) for k in range(len(order))},
                   "order": order,
                   "hmtx": {n: tt["hmtx"][n] for n in tt.getGlyphOrder()},
                   "layout": {t: tt.reader[t] for t in ("GSUB", "GPOS", "GDEF") if t in tt.reader},
                   "cff_tag": "CFF2" if "CFF2" in tt else "CFF "}
            if "CFF " in tt:
                # the advance stored in each charstring (decoded with the Private dict's default / nominal width) is the hmtx one
                from fontTools.pens.basePen import NullPen
                td = tt["CFF "].cff.topDictIndex[0]
                priv = td.Private
                # (defaultWidthX, nominalWidthX): the fontinfo values where given, else what optimizeWidths chose (read back)
                dn = {"explicit-default-0": (0, 543), "explicit-both": (int(desc["glyphs"][0]["width"]), -20)}.get(
                    wkind, (int(priv.defaultWidthX), int(priv.nominalWidthX)))
                src_w = {g["name"]: Fr(g["width"]) for g in desc["glyphs"]}
                for n in order:
                    cs = td.CharStrings[n]
                    cs.draw(NullPen())
                    if cs.width != tt["hmtx"][n][0]:
                        ctx.spec_failure(dict(case, glyph=n), "the 'CFF ' charstring of %r carries advance %r, hmtx says %r" % (n, cs.width, tt["hmtx"][n][0]))
                        break
                    if not prod and n in src_w:
                        wcases.append(G.tup(geom.g_q(src_w[n]), G.z(dn[0]), G.z(dn[1]),
                                            G.opt(None if "defaultWidthX" not in priv.rawDict else G.z(int(priv.rawDict["defaultWidthX"])), "Z"),
                                            G.opt(None if "nominalWidthX" not in priv.rawDict else G.z(int(priv.rawDict["nominalWidthX"])), "Z"),
                                            G.z(int(cs.width))))
                        wmeta.append(dict(case, glyph=n, source_width=str(src_w[n]), default_nominal=list(dn),
                                          private_rawDict={k: priv.rawDict[k] for k in ("defaultWidthX", "nominalWidthX") if k in priv.rawDict},
                                          decoded_advance=cs.width))
            if obs["cff_tag"] != ("CFF2" if ver == 2 else "CFF "):
                ctx.spec_failure(case, "requested cffVersion %d but the font has %r" % (ver, obs["cff_tag"]))
            if base is None:
                base = obs
                ctx.nontriv(("font", i, ctx.scale))
                continue
            if obs["order"] != base["order"]:
                ctx.spec_failure(case, "glyph order %r differs from the baseline build's %r" % (obs["order"], base["order"]))
                continue
            for n in range(len(order)):
                if obs["draw"][n] != base["draw"][n]:
                    norm = lambda v: [geom.cyc_canon(geom.merge_axis_lines(sg)) for sg in geom.recorded_to_segments(v)]
                    if norm(obs["draw"][n]) == norm(base["draw"][n]):
                        # the specialiser folds a straight axis-parallel run of two lines into one: same outline (O7)
                        ctx.klass("collinear_axis_run_merged_by_specialiser")
                        continue
                    ctx.spec_failure(dict(case, glyph=order[n]), "glyph #%d %r draws %r, baseline (optimizeCFF=0, CFF1) draws %r" % (
                        n, order[n], obs["draw"][n][:6], base["draw"][n][:6]))
                    break
            if obs["hmtx"] != base["hmtx"]:
                ctx.spec_failure(case, "hmtx differs from the baseline build")
            if obs["layout"] != base["layout"]:
                ctx.spec_failure(case, "layout table bytes differ from the baseline build")
    variable_section(ctx)
    wvals = ctx.coq_eval("From Coq Require Import QArith Qcanon.\nFrom U2F Require Import Base.Prelude Geometry.Model Cff.Width.",
                         "fun c : (Qc * Z * Z * option Z * option Z * Z) => let '(w, d, n, pd, pn, adv) := c in "
                         "(if option_eqb Z.eqb (p_default (write_private d n)) pd && option_eqb Z.eqb (p_nominal (write_private d n)) pn "
                         "then 1 else 0) + (if Z.eqb (cff_advance w d n) adv && Z.eqb adv (otRound w) then 2 else 0)", wcases, chunk=400, tag="Width")
    if wcases:
        ctx.klass("cff width model cases (glyph x build)", len(wcases))
    for v, case in zip(wvals, wmeta):
        if v is None:
            continue
        if not v & 2:
            ctx.spec_failure(case, "the advance decoded from the 'CFF ' charstring is not the rounded source advance (model cff_advance)")
        elif not v & 1:
            ctx.corr_mismatch(case, "Private dict width entries differ from the model's write_private (written iff non-zero)")
    vals = ctx.coq_eval(IMPORTS, FN, cases, chunk=400, tag="Dec")
    for v, case in zip(vals, meta):
        if v is None:
            continue
        if v != 3:
            ctx.corr_mismatch(case, "process_cff decision (Coq) and the implementation disagree on whether %r is supported" % (case["options"],))
    if meta:
        ctx.sample({"options": meta[0]["options"], "raised": meta[0]["raised"]})
