"""C03 -- glyph order and character map follow the source exactly."""
import io, itertools, traceback
from fractions import Fraction as Fr
from harness import gterm as G
from harness.fonts import build_font, rand_names, jsonable

PID = "C03"
LEVEL_TEXT = ("Proof: Coq theorems (for all glyph-name sets, glyphOrder lists and code-point assignments, no size bound) that the "
              "model of makeOfficialGlyphOrder / makeUnicodeToGlyphNameMapping / setupTable_cmap yields '.notdef' + listed-existing + "
              "sorted rest, each glyph once, rejects exactly the duplicate code points, maps cp->g iff g declares cp, splits BMP/non-BMP "
              "at the threshold read from the source, and satisfies the executable spec_C03. The model is tied to /repo by a "
              "correspondence run (function level and compiled TTF/OTF, both UFO libraries) evaluated in Coq with vm_compute; spec_C03 "
              "is also evaluated directly on the implementation's observation. makeOfficialGlyphOrder and makeUnicodeToGlyphNameMapping are, "
              "in addition, TRANSLATED from /repo's util.py on every run (harness/imp_from_source.py: an imperative fragment -- sets, lists, "
              "dicts, nested for, continue, raise -- into state-passing Gallina, fail-closed) and the translation is PROVED equal to the hand "
              "model, so the order / exactly-once / duplicate / sound-and-complete theorems are restated about the code as it reads now."
              " The variation-sequence loop of setupTable_cmap is TRANSLATED from /repo's source on every run (harness/imp_from_source.py -> Generated/Imp.v) and proved equal to the model when no selector repeats (Order/UvsTied.v): sound / complete / no empty selector are restated about the translated code.")
LEVEL_NOTE = ("Trusted: Coq kernel, hand-written model (validated by correspondence only on generated cases), AST constant reader, "
              "Python harness, fontTools cmap (de)compilation. UVS and maxp.numGlyphs are checked on the implementation only.")
TECHNIQUE = "Coq proof (model |= spec, for all inputs; three code fragments translated from source on every run and proved equal to the model) + vm_compute correspondence of model and spec against ufo2ft on generated fonts"
IMPORTS = "From U2F Require Import Base.Prelude Order.GlyphOrder."
RULE = ("function level: random (glyph-name set, glyphOrder list) pairs incl. duplicates, unknown names, '.notdef' "
        "present/absent, fed to ufo2ft.util.makeOfficialGlyphOrder and to the Gallina glyph_order; compile level: small "
        "random fonts (code points from {0x20,0xFFFE,0xFFFF,0x10000,0x10FFFF,random}, several per glyph, duplicates "
        "across/within glyphs, UVS) through compileTTF/compileOTF, both UFO libraries, explicit glyphOrder= argument; "
        "observation = reloaded glyph order + cmap subtables. A case is non-trivial when the order list reorders at least "
        "one existing glyph or the font has a non-BMP/duplicate code point; distinct by (keys, order, unicodes) content.")
ASSUMPTIONS = ["fontTools cmap compile/decompile round-trips the dict it was given (observed after save+reload)",
               "font.keys() is a set of distinct names (UFO invariant)"]

FN = ("fun c : (list str * list str * list (str * list Z) * option c03_obs) => "
      "let '(keys, order, unis, obs) := c in "
      "(if c03_obs_eqb (model_C03 keys order unis) obs then 1 else 0) + "
      "(if spec_C03 keys order unis obs then 2 else 0)")
FN_ORDER = ("fun c : (list str * list str * list str) => let '(keys, order, got) := c in "
            "(if list_eqb str_eqb (glyph_order keys order) got then 1 else 0) + "
            "(if list_eqb str_eqb (spec_order keys order) got then 2 else 0)")

CPS = [0x20, 0x41, 0xFFFE, 0xFFFF, 0x10000, 0x10FFFF, 0x1F600, 0x61, 0x3B1]


def g_strs(names):
    return G.lst([G.s(n) for n in names], "str")


def g_cmapping(d):
    return G.lst([G.tup(G.z(k), G.s(v)) for k, v in d.items()], "(Z * str)")


def g_obs(obs):
    if obs is None:
        return "(@None c03_obs)"
    c12 = "(@None cmapping)" if obs["cmap12"] is None else "(Some %s)" % g_cmapping(obs["cmap12"])
    return "(Some (Build_c03_obs %s %s %s))" % (g_strs(obs["order"]), g_cmapping(obs["cmap4"]), c12)


def gen_order_case(rng):
    pool = [".notdef", "a", "B", "b", "aa", "zz", "a.alt", "_", "é"]
    keys = [n for n in pool if rng.random() < 0.6]
    rng.shuffle(keys)
    k = rng.randint(0, 6)
    order = [rng.choice(pool + ["nope"]) for _ in range(k)]
    return keys, order


def impl_order(keys, order):
    from ufo2ft.util import makeOfficialGlyphOrder

    class F(dict):
        pass
    f = F((k, None) for k in keys)
    if order is not None:
        f.glyphOrder = order
    return makeOfficialGlyphOrder(f)


def gen_font_case(rng, i):
    # at least one glyph besides .notdef: a CFF font holding only .notdef cannot be
    # re-read by fontTools (predefined charset) -- an environment limit, excluded
    n = rng.randint(2, 7)
    names = rand_names(rng, n)
    if rng.random() < 0.5:
        names[rng.randrange(n)] = ".notdef"
    glyphs = []
    dup = rng.random() < 0.25
    used = []
    for nm in names:
        us = []
        if nm != ".notdef":
            for _ in range(rng.choice([0, 1, 1, 1, 2, 3])):
                cp = rng.choice(CPS) if rng.random() < 0.7 else rng.randint(0x21, 0x2FFFF)
                if cp in used and not dup:
                    continue
                us.append(cp)
                used.append(cp)
        glyphs.append({"name": nm, "width": 500, "unicodes": us,
                       "contours": [[(0, 0, "line"), (100, 0, "line"), (50, 100, "line")]] if rng.random() < 0.7 else []})
    if i % 10 == 3:
        # a glyph whose FIRST code point is U+0000 (the NULL glyph), with further code points after it
        g0 = next((g for g in glyphs if g["name"] != ".notdef"), None)
        if g0 is not None:
            for g in glyphs:
                g["unicodes"] = [u for u in g["unicodes"] if u not in (0x0, 0xD, 0x2400)]
            g0["unicodes"] = [0x0, 0xD, 0x2400][: 1 + (i // 10) % 3]
    pool = names + ["nope"]
    order = None
    if rng.random() < 0.8:
        order = [rng.choice(pool) for _ in range(rng.randint(0, n + 2))]
    return {"glyphs": glyphs, "glyphOrder": order}


def renamed_cmap_section(ctx):
    """with production names (a collision on one name plus a LATER glyph literally carrying the de-duplicated name) every code
    point must still reach the glyph INDEX of the source glyph that declares it, in the 16-bit and the 32-bit subtables, also
    after save and reload; and the glyph order keeps its length"""
    import ufo2ft
    from fontTools.ttLib import TTFont
    for i in range(ctx.budget(4, 16)):
        lib = ["ufoLib2", "defcon"][i % 2]
        flavor = ["ttf", "otf"][(i // 2) % 2]
        names = ["A", "A-cy", "A.1", "B", "A.1.1"][: 4 + i % 2]
        cps = {"A": [0x41], "A-cy": [0x410], "A.1": [0x1D00, 0x1D434], "B": [0x42], "A.1.1": [0x1F600]}
        glyphs = [{"name": n, "unicodes": cps[n], "width": 500 + 10 * k, "components": [], "anchors": [],
                   "contours": [[(0, 0, "line"), (100 + k, 0, "line"), (50, 100, "line")]]} for k, n in enumerate(names)]
        desc = {"glyphs": glyphs, "glyphOrder": list(names), "lib": {"public.postscriptNames": {"A": "A", "A-cy": "A"}}}
        case = {"font": jsonable(desc), "lib": lib, "flavor": flavor, "level": "cmap under production names"}
        ctx.count(); ctx.klass("renamed: code points by glyph index/" + flavor); ctx.nontriv(("rcmap", i, ctx.scale))
        try:
            tt = (ufo2ft.compileTTF if flavor == "ttf" else ufo2ft.compileOTF)(build_font(desc, lib), useProductionNames=True)
            mem = tt.getGlyphOrder()
            if len(mem) != len(names) + 1 or len(set(mem)) != len(mem):
                ctx.spec_failure(dict(case, glyph_order=mem), "the compiled font's glyph order %r does not name each of the %d "
                                 "glyphs exactly once" % (mem, len(names) + 1))
                continue
            buf = io.BytesIO(); tt.save(buf); buf.seek(0); tt = TTFont(buf)
        except Exception as e:
            ctx.spec_failure(case, "compile raised %s: %s\n%s" % (type(e).__name__, e, traceback.format_exc()[-1000:]))
            continue
        order = tt.getGlyphOrder()
        if len(order) != len(names) + 1 or len(set(order)) != len(order):
            ctx.spec_failure(dict(case, glyph_order=order), "glyph order %r: not one unique name per source glyph" % order)
            continue
        want = {u: k + 1 for k, n in enumerate(names) for u in cps[n]}
        for st in tt["cmap"].tables:
            if not st.isUnicode():
                continue
            got = {u: order.index(g) for u, g in st.cmap.items()}
            exp = {u: k for u, k in want.items() if st.format != 4 or u <= 0xFFFF}
            if got != exp:
                ctx.spec_failure(dict(case, subtable=(st.platformID, st.platEncID, st.format), glyph_order=order),
                                 "cmap format %d maps code points to glyph indices %r, the source says %r" % (st.format, got, exp))
                break


def notdef_option_section(ctx):
    """the notdefGlyph option on sources WITHOUT a .notdef: the given glyph -- whatever it is called in the font it comes
    from -- becomes glyph 0 under the name .notdef; the glyph order is .notdef, the stored order, the rest sorted; the
    character map still reaches every code point (also the one of the glyph that would otherwise sit at index 0)"""
    import ufo2ft
    from fontTools.ttLib import TTFont
    sq = lambda d: [[(Fr(0), Fr(0), "line"), (Fr(d), Fr(0), "line"), (Fr(d), Fr(d), "line"), (Fr(0), Fr(d), "line")]]
    for i in range(ctx.budget(8, 16)):
        lib = ["ufoLib2", "defcon"][i % 2]
        flavor = ["ttf", "otf"][(i // 2) % 2]
        given = ["missing", ".notdef", "zzz.box", "a.alt"][(i // 4) % 4]
        glyphs = [{"name": n, "unicodes": [u] if u else [], "width": 400 + 10 * k, "contours": sq(50 + k), "components": [], "anchors": []}
                  for k, (n, u) in enumerate((("b", 0x62), ("a", 0x61), ("c.alt", None), ("zeta", 0x3B6), ("nbspace", 0xA0)))]
        desc = {"glyphs": glyphs, "glyphOrder": ["nbspace", "b", "a"]}
        donor = build_font({"glyphs": [{"name": given, "unicodes": [], "width": 777, "contours": sq(333), "components": [], "anchors": []}]}, lib)
        case = {"font": jsonable(desc), "lib": lib, "flavor": flavor, "notdefGlyph": "a glyph named %r, advance 777" % given}
        ctx.count(); ctx.klass("notdefGlyph option: glyph named " + given); ctx.nontriv(("ndo", i, ctx.scale))
        try:
            tt = (ufo2ft.compileTTF if flavor == "ttf" else ufo2ft.compileOTF)(build_font(desc, lib), notdefGlyph=donor[given], useProductionNames=False)
            mem = tt.getGlyphOrder()
            b = io.BytesIO(); tt.save(b); tt = TTFont(io.BytesIO(b.getvalue()))
        except Exception as e:
            ctx.spec_failure(case, "compile raised %s: %s\n%s" % (type(e).__name__, e, traceback.format_exc()[-800:]))
            continue
        want = [".notdef", "nbspace", "b", "a", "c.alt", "zeta"]
        if mem != want or tt.getGlyphOrder() != want:
            ctx.spec_failure(dict(case, glyph_order=mem), "glyph order %r (reloaded %r), the rule gives %r" % (mem, tt.getGlyphOrder(), want))
            continue
        if tt["hmtx"][".notdef"][0] != 777:
            ctx.spec_failure(case, "glyph 0 is not the given .notdef glyph (advance %r)" % tt["hmtx"][".notdef"][0])
        cm = tt["cmap"].getBestCmap()
        if cm != {0x62: "b", 0x61: "a", 0x3B6: "zeta", 0xA0: "nbspace"}:
            ctx.spec_failure(dict(case, cmap={hex(k): v for k, v in cm.items()}), "character map %r" % cm)


def family_section(ctx):
    """the interpolatable and variable entry points (font lists, designspaces; glyf and CFF2): every compiled font -- each
    master, the variable font -- has the glyph order and the character map of the rule, over the EXPORTED glyphs: a glyph
    named in skipExportGlyphs (referenced by nobody, or used as a component) is in neither"""
    import ufo2ft
    from harness import dsgen
    from fontTools.ttLib import TTFont
    rng = ctx.subrng("family")
    sq = lambda x, d: [[(Fr(x), Fr(0), "line"), (Fr(x + d), Fr(0), "line"), (Fr(x + d), Fr(d), "line"), (Fr(x), Fr(d), "line")]]
    one = (Fr(1), Fr(0), Fr(0), Fr(1))
    FNS = ["compileInterpolatableTTFs", "compileInterpolatableTTFsFromDS", "compileInterpolatableOTFsFromDS", "compileVariableTTF", "compileVariableCFF2"]
    for i in range(ctx.budget(25, 50)):
        lib = ["ufoLib2", "defcon"][i % 2]
        fn = FNS[i % 5]
        # "ufo-lib-only": the masters' own libs name `b`, the designspace lib has no such key -- a designspace build then
        # exports every glyph (the documented rule: the designspace lib alone decides), a build from a font list skips `b`
        skip_kind = ["unreferenced", "none", "component", "unreferenced-by-argument", "ufo-lib-only"][(i // 5) % 5]
        from_ds = fn != "compileInterpolatableTTFs"

        def master(k):
            d = 10 * k
            gl = [{"name": "c", "unicodes": [0x63], "width": Fr(500 + d), "contours": sq(0, 100 + d), "components": [], "anchors": []},
                  {"name": "b", "unicodes": [0x62, 0x1F600], "width": Fr(510 + d), "contours": sq(10, 90 + d), "components": [], "anchors": []},
                  {"name": "a", "unicodes": [0x61], "width": Fr(520 + d), "contours": sq(20, 80 + d), "components": [], "anchors": []},
                  {"name": "zeta", "unicodes": [0x3B6, 0x1D6C7], "width": Fr(530 + d), "contours": sq(5, 70 + d), "components": [], "anchors": []},
                  {"name": "d", "unicodes": [0x64], "width": Fr(540 + d), "contours": [], "anchors": [],
                   "components": [("a", one + (Fr(3 + d), Fr(0)))] + ([("b", one + (Fr(200), Fr(0)))] if skip_kind == "component" else [])}]
            lb = {"public.skipExportGlyphs": ["b"]} if skip_kind in ("unreferenced", "component", "ufo-lib-only") else {}
            if skip_kind == "ufo-lib-only" and k == 0 and (i // 25) % 2 == 0:
                lb = {}          # only the LAST master's lib names `b`: a font list skips the union of the masters' lists
            # (one family in three: the masters store DIFFERENT glyph orders -- every compiled master follows its own, the
            # variable font the default source's)
            order = ["c", "b", "ghost", "a", "c"] if k == 0 or i % 3 != 1 else ["zeta", "d", "a", "b"]
            return {"glyphs": gl, "glyphOrder": order, "lib": lb, "kerning": {}, "groups": {},
                    "info": {"familyName": "Fam", "styleName": "M%d" % k, "unitsPerEm": 1000, "ascender": 800, "descender": -200}}
        masters = [master(0), master(2)]
        ds, fonts = dsgen.make_designspace(rng, masters, lib)
        # the argument is documented for font lists only (designspace builds: "the designspace lib alone decides"), so it is
        # not passed to -- and nothing is demanded of -- the designspace functions
        kw = {"skipExportGlyphs": ["b"]} if skip_kind == "unreferenced-by-argument" and not from_ds else {}
        if skip_kind in ("unreferenced", "component") and "FromDS" in fn or fn.startswith("compileVariable"):
            if skip_kind in ("unreferenced", "component"):
                ds.lib["public.skipExportGlyphs"] = ["b"]
        skipped = {"b"} if skip_kind != "none" and not (skip_kind in ("ufo-lib-only", "unreferenced-by-argument") and from_ds) else set()
        case = {"function": fn, "lib": lib, "skip": skip_kind, "options": jsonable(kw), "font": jsonable(masters[0])}
        ctx.count(); ctx.klass("family: %s / skip %s" % (fn, skip_kind)); ctx.nontriv(("fam", i, ctx.scale))
        try:
            if fn == "compileInterpolatableTTFs":
                outs = list(ufo2ft.compileInterpolatableTTFs(fonts, useProductionNames=False, **kw))
            elif "Interpolatable" in fn:
                outs = [sd.font for sd in getattr(ufo2ft, fn)(ds, useProductionNames=False, **kw).sources]
            else:
                outs = [getattr(ufo2ft, fn)(ds, useProductionNames=False, **kw)]
        except Exception as e:
            ctx.spec_failure(case, "%s raised %s: %s\n%s" % (fn, type(e).__name__, e, traceback.format_exc()[-1000:]))
            continue
        exported = [g for g in masters[0]["glyphs"] if g["name"] not in skipped]
        names = {g["name"] for g in exported}
        want_cmap = {u: g["name"] for g in exported for u in g["unicodes"]}
        for k, tt in enumerate(outs):
            src = masters[k] if len(outs) == len(masters) else masters[0]
            stored = [n for n in dict.fromkeys(src["glyphOrder"]) if n in names]
            want_order = [".notdef"] + stored + sorted(names - set(stored))
            b = io.BytesIO(); tt.save(b); tt = TTFont(io.BytesIO(b.getvalue()))
            if tt.getGlyphOrder() != want_order:
                ctx.spec_failure(dict(case, font_index=k, glyph_order=tt.getGlyphOrder(), expected=want_order),
                                 "font %d of %s has glyph order %r, the rule gives %r" % (k, fn, tt.getGlyphOrder(), want_order))
                break
            bad = None
            for st in tt["cmap"].tables:
                if st.isUnicode() and st.format in (4, 12):
                    exp = {u: n for u, n in want_cmap.items() if st.format == 12 or u <= 0xFFFF}
                    if dict(st.cmap) != exp:
                        bad = "cmap format %d of font %d maps %r, the exported glyphs declare %r" % (
                            st.format, k, {hex(u): n for u, n in sorted(st.cmap.items())}, {hex(u): n for u, n in sorted(exp.items())})
            if bad:
                ctx.spec_failure(dict(case, font_index=k), bad)
                break


def color_layer_section(ctx):
    """colour fonts built from colour LAYERS (colorPalettes + colorLayerMapping, per glyph or font-wide): the layer glyphs that the
    pre-processor copies into the glyph set as `<name>.<layer>` alternates -- those named by the mapping and those reached as
    component bases inside the layer -- declare no code points, whatever the layer's own glyphs carry.  The character map is
    exactly the default layer's, the alternates follow the source glyphs in the glyph order"""
    import ufo2ft
    from fontTools.ttLib import TTFont
    PAL, MAP = "com.github.googlei18n.ufo2ft.colorPalettes", "com.github.googlei18n.ufo2ft.colorLayerMapping"
    sq = lambda x, d: [[(Fr(x), Fr(0), "line"), (Fr(x + d), Fr(0), "line"), (Fr(x + d), Fr(d), "line"), (Fr(x), Fr(d), "line")]]
    for i in range(ctx.budget(8, 16)):
        lib = ["ufoLib2", "defcon"][i % 2]
        flavor = ["ttf", "otf"][(i // 2) % 2]
        # the layer's `b` carries: the same code point as the default `b` / other code points (BMP + supplementary) / none
        layer_b = [[0x62], [0x42, 0x1F601], []][(i // 4) % 3]
        per_glyph = (i // 2) % 4 != 3
        desc = {"glyphs": [{"name": n, "unicodes": u, "width": Fr(600), "contours": sq(50, 400 + 10 * k), "components": [], "anchors": []}
                           for k, (n, u) in enumerate([("a", [0x61]), ("b", [0x62]), ("c", [0x1F600])])],
                "glyphOrder": ["a", "b", "c"], "lib": {PAL: [[(1.0, 0.0, 0.0, 1.0)]]}}
        case = {"font": jsonable(desc), "lib": lib, "flavor": flavor, "layer_color1": {"a": "component of the layer's b", "b": {"unicodes": layer_b}},
                "mapping": "per glyph (a only)" if per_glyph else "font-wide", "level": "colour layers"}
        ctx.count(); ctx.klass("colour layers: %s mapping, layer b with %s" % ("per-glyph" if per_glyph else "font-wide", layer_b or "no code points"))
        ctx.nontriv(("col", i, ctx.scale))
        try:
            font = build_font(desc, lib)
            layer = font.newLayer("color1")
            lb = layer.newGlyph("b"); lb.width = 600; lb.unicodes = list(layer_b)
            pen = lb.getPen(); pen.moveTo((100, 100)); pen.lineTo((400, 100)); pen.lineTo((400, 400)); pen.lineTo((100, 400)); pen.closePath()
            la = layer.newGlyph("a"); la.width = 600
            la.getPen().addComponent("b", (1, 0, 0, 1, 0, 0))
            if per_glyph:
                font["a"].lib[MAP] = [("color1", 0)]
            else:
                font.lib[MAP] = [("color1", 0)]
            tt = (ufo2ft.compileTTF if flavor == "ttf" else ufo2ft.compileOTF)(font, useProductionNames=False)
            b = io.BytesIO(); tt.save(b); tt = TTFont(io.BytesIO(b.getvalue()))
        except Exception as e:
            ctx.spec_failure(case, "compile raised %s: %s\n%s" % (type(e).__name__, e, traceback.format_exc()[-1000:]))
            continue
        order = tt.getGlyphOrder()
        if order[:4] != [".notdef", "a", "b", "c"] or sorted(order[4:]) != sorted(n for n in order[4:] if n.endswith(".color1")) or "a.color1" not in order:
            ctx.spec_failure(dict(case, glyph_order=order), "glyph order of the colour font: %r" % order)
            continue
        want = {0x61: "a", 0x62: "b", 0x1F600: "c"}
        for st in tt["cmap"].tables:
            if st.isUnicode() and st.format in (4, 12):
                exp = {u: n for u, n in want.items() if st.format == 12 or u <= 0xFFFF}
                if dict(st.cmap) != exp:
                    ctx.spec_failure(dict(case, cmap={hex(u): n for u, n in st.cmap.items()}),
                                     "cmap format %d maps %r; the default layer's glyphs declare %r" % (
                                         st.format, {hex(u): n for u, n in sorted(st.cmap.items())}, {hex(u): n for u, n in sorted(exp.items())}))
                    break


def dotted_circle_section(ctx):
    """the DottedCircle pre-filter (from the lib) on fonts that already HAVE a glyph for U+25CC: as a later code point of a glyph
    with several, as a glyph made only of components, as a plain glyph, under an unusual name -- the filter must recognise it
    (it adds a glyph of its own only when the font has none), so the character map is exactly the source's and compilation
    does not raise 'already mapped'"""
    import ufo2ft
    from fontTools.ttLib import TTFont
    sq = lambda x, d: [[(Fr(x), Fr(0), "line"), (Fr(x + d), Fr(0), "line"), (Fr(x + d), Fr(d), "line"), (Fr(x), Fr(d), "line")]]
    one = (Fr(1), Fr(0), Fr(0), Fr(1))
    KINDS = ["later code point", "components only", "plain", "absent"]
    for i in range(ctx.budget(8, 16)):
        lib = ["ufoLib2", "defcon"][i % 2]
        kind = KINDS[(i // 2) % 4]
        flavor = ["ttf", "otf"][(i // 8) % 2]
        glyphs = [{"name": "a", "unicodes": [0x61], "width": Fr(500), "contours": sq(50, 400), "components": [], "anchors": [("top", Fr(250), Fr(520))]},
                  {"name": "acutecomb", "unicodes": [0x301], "width": Fr(0), "contours": sq(-40, 60), "components": [], "anchors": [("_top", Fr(0), Fr(480))]},
                  {"name": "dot", "unicodes": [0x2E], "width": Fr(200), "contours": sq(60, 80), "components": [], "anchors": []}]
        if kind == "later code point":
            glyphs.append({"name": "circles", "unicodes": [0x25EF, 0x25CC], "width": Fr(600), "contours": sq(100, 400), "components": [], "anchors": []})
        elif kind == "components only":
            glyphs.append({"name": "dottedcircle", "unicodes": [0x25CC], "width": Fr(600), "contours": [], "anchors": [],
                           "components": [("dot", one + (Fr(100), Fr(100))), ("dot", one + (Fr(300), Fr(100))), ("dot", one + (Fr(200), Fr(300)))]})
        elif kind == "plain":
            glyphs.append({"name": "zz.circle", "unicodes": [0x25CC], "width": Fr(600), "contours": sq(100, 400), "components": [], "anchors": []})
        desc = {"glyphs": glyphs, "glyphOrder": [g["name"] for g in glyphs],
                "lib": {"com.github.googlei18n.ufo2ft.filters": [{"name": "dottedCircle", "pre": True}]}}
        case = {"font": jsonable(desc), "lib": lib, "flavor": flavor, "dotted_circle_glyph": kind, "level": "DottedCircle pre-filter"}
        ctx.count(); ctx.klass("dotted circle filter: U+25CC %s" % kind); ctx.nontriv(("dc", i, ctx.scale))
        try:
            tt = (ufo2ft.compileTTF if flavor == "ttf" else ufo2ft.compileOTF)(build_font(desc, lib), useProductionNames=False)
            b = io.BytesIO(); tt.save(b); tt = TTFont(io.BytesIO(b.getvalue()))
        except Exception as e:
            ctx.spec_failure(case, "compile raised %s: %s\n%s" % (type(e).__name__, e, traceback.format_exc()[-800:]))
            continue
        want = {u: g["name"] for g in glyphs for u in g["unicodes"]}
        order = tt.getGlyphOrder()
        if kind == "absent":
            extra = [n for n in order if n not in [g["name"] for g in glyphs] + [".notdef"]]
            if len(extra) != 1:
                ctx.spec_failure(dict(case, glyph_order=order), "a font without a U+25CC glyph should gain exactly one: glyph order %r" % order)
                continue
            want[0x25CC] = extra[0]
        elif order != [".notdef"] + [g["name"] for g in glyphs]:
            ctx.spec_failure(dict(case, glyph_order=order), "the font has a glyph for U+25CC, yet the glyph order is %r" % order)
            continue
        got = dict(tt["cmap"].getBestCmap())
        if got != want:
            ctx.spec_failure(dict(case, cmap={hex(u): n for u, n in got.items()}), "character map %r, the glyphs declare %r" % (
                {hex(u): n for u, n in sorted(got.items())}, {hex(u): n for u, n in sorted(want.items())}))


def observe_compiled(desc, flavor, lib, explicit_order):
    import ufo2ft
    from fontTools.ttLib import TTFont
    from ufo2ft.errors import InvalidFontData
    font = build_font(desc if explicit_order in (False, "empty-over-stored") else dict(desc, glyphOrder=None), lib)
    kw = {"useProductionNames": False}
    # the "stored glyph order" is what the font object reports (defcon synthesises
    # one from creation order when none was set)
    effective = list(desc["glyphOrder"]) if explicit_order is True else list(font.glyphOrder)
    if explicit_order is True:
        kw["glyphOrder"] = desc["glyphOrder"]
    elif explicit_order == "empty-over-stored":
        # an explicitly EMPTY glyphOrder argument on a font that stores a (non-trivial) order: the argument wins
        kw["glyphOrder"] = []
        effective = []
    try:
        tt = (ufo2ft.compileTTF if flavor == "ttf" else ufo2ft.compileOTF)(font, **kw)
    except InvalidFontData:
        return None, {"effective_order": effective}
    buf = io.BytesIO()
    tt.save(buf)
    buf.seek(0)
    tt = TTFont(buf)
    obs = {"order": tt.getGlyphOrder(), "cmap4": None, "cmap12": None}
    extra = {"numGlyphs": tt["maxp"].numGlyphs, "subtables": [], "effective_order": effective}
    t4, t12 = [], []
    for st in tt["cmap"].tables:
        extra["subtables"].append((st.format, st.platformID, st.platEncID))
        if st.format == 4:
            t4.append(dict(st.cmap))
        elif st.format == 12:
            t12.append(dict(st.cmap))
    extra["t4_equal"] = all(t == t4[0] for t in t4) and len(t4) == 2
    extra["t12_equal"] = all(t == t12[0] for t in t12) and len(t12) in (0, 2)
    obs["cmap4"] = t4[0] if t4 else {}
    obs["cmap12"] = t12[0] if t12 else None
    return obs, extra


def explore(ctx):
    renamed_cmap_section(ctx)
    family_section(ctx)
    color_layer_section(ctx)
    dotted_circle_section(ctx)
    notdef_option_section(ctx)
    # ---- function level
    cases, meta = [], []
    n = ctx.budget(300, 3000)
    if not ctx.quick():
        # exhaustive small sweep: all key subsets of 5 names x all order lists of length <= 3 over 6 names
        pool = [".notdef", "a", "B", "b", "aa"]
        opool = pool + ["zz"]
        combos = []
        for r in range(len(pool) + 1):
            for keys in itertools.combinations(pool, r):
                for L in range(0, 4):
                    for order in itertools.product(opool, repeat=L):
                        combos.append((list(keys), list(order)))
        rr = ctx.subrng("sweep")
        rr.shuffle(combos)
        sweep = combos[: 4000 * ctx.scale]
        ctx.notes["order_sweep_cases"] = len(sweep)
    else:
        sweep = []
    rng = ctx.subrng("order")
    for i in range(n + len(sweep)):
        keys, order = sweep[i - n] if i >= n else gen_order_case(rng)
        got = impl_order(keys, order)
        cases.append(G.tup(g_strs(keys), g_strs(order), g_strs(got)))
        meta.append((keys, order, got))
        ctx.count()
        if any(o in keys and o != ".notdef" for o in order):
            ctx.nontriv(("order", tuple(sorted(keys)), tuple(order)))
        ctx.klass("order:function-level")
    vals = ctx.coq_eval(IMPORTS, FN_ORDER, cases, chunk=400, tag="Order")
    for v, (keys, order, got) in zip(vals, meta):
        if v is None:
            continue
        case = {"level": "makeOfficialGlyphOrder", "keys": keys, "glyphOrder": order, "impl": got}
        if not v & 2:
            ctx.spec_failure(case, "glyph order differs from '.notdef' + listed-existing + sorted rest")
        elif not v & 1:
            ctx.corr_mismatch(case, "model glyph_order differs from makeOfficialGlyphOrder")
    if meta:
        ctx.sample({"makeOfficialGlyphOrder": {"keys": meta[0][0], "glyphOrder": meta[0][1], "result": meta[0][2]}})

    # ---- compile level
    rng = ctx.subrng("compile")
    cases, meta = [], []
    n = ctx.budget(60, 600)
    for i in range(n):
        desc = gen_font_case(rng, i)
        flavor = rng.choice(["ttf", "otf"])
        lib = rng.choice(["ufoLib2", "defcon"])
        explicit = desc["glyphOrder"] is not None and rng.random() < 0.3
        if i % 10 == 7:
            desc["glyphOrder"] = sorted({g["name"] for g in desc["glyphs"]}, reverse=True)
            explicit = "empty-over-stored"
            ctx.klass("explicit empty glyphOrder argument over a stored order")
        try:
            obs, extra = observe_compiled(desc, flavor, lib, explicit)
        except Exception as e:
            ctx.spec_failure({"font": jsonable(desc), "flavor": flavor, "lib": lib},
                             "compile raised %s: %s (only InvalidFontData on duplicate code points is allowed)\n%s" % (type(e).__name__, e, traceback.format_exc()[-1800:]))
            continue
        keys = [g["name"] for g in desc["glyphs"]]
        unis = [(g["name"], g["unicodes"]) for g in desc["glyphs"]]
        order = extra["effective_order"]
        cases.append(G.tup(g_strs(keys), g_strs(order),
                           G.lst([G.tup(G.s(a), G.lst([G.z(u) for u in us], "Z")) for a, us in unis], "(str * list Z)"),
                           g_obs(obs)))
        case = {"font": jsonable(desc), "flavor": flavor, "lib": lib, "explicit_glyphOrder_arg": explicit, "effective_glyphOrder": order,
                "impl_obs": jsonable(obs)}
        meta.append(case)
        ctx.count()
        allcps = [u for _, us in unis for u in us]
        if len(set(allcps)) != len(allcps):
            ctx.klass("compile:duplicate-cp")
            ctx.nontriv(("dup", repr(unis)))
        if any(u > 0xFFFF for u in allcps):
            ctx.klass("compile:non-BMP")
            ctx.nontriv(("nonbmp", repr(unis), repr(order)))
        elif any(o in keys for o in order):
            ctx.nontriv(("ord", repr(keys), repr(order)))
        ctx.klass("compile:%s/%s" % (flavor, lib))
        if obs is not None:
            # direct checks on the implementation (not modelled)
            if extra["numGlyphs"] != len(obs["order"]):
                ctx.spec_failure(case, "maxp.numGlyphs %d != len(glyph order) %d" % (extra["numGlyphs"], len(obs["order"])))
            if not extra["t4_equal"] or not extra["t12_equal"]:
                ctx.spec_failure(case, "the two platform subtables of one format differ: %r" % (extra["subtables"],))
    vals = ctx.coq_eval(IMPORTS, FN, cases, chunk=100, tag="Cmap")
    for v, case in zip(vals, meta):
        if v is None:
            continue
        if not v & 2:
            ctx.spec_failure(case, "spec_C03 (Coq) is false on the compiled font's glyph order / cmap")
        elif not v & 1:
            ctx.corr_mismatch(case, "model_C03 differs from the compiled font", level="semantic")
    if meta:
        ctx.sample(meta[0])

    # ---- UVS (direct: each sequence is default iff it names the base mapping's glyph)
    rng = ctx.subrng("uvs")
    uvs_cases, uvs_meta = [], []
    for i in range(ctx.budget(10, 100)):
        desc = {"glyphs": [{"name": "a", "width": 500, "unicodes": [0x61]},
                           {"name": "a.v1", "width": 500, "unicodes": []},
                           {"name": "u", "width": 500, "unicodes": [0x1F600] if rng.random() < 0.5 else [0x75]}],
                "lib": {}}
        seqs = {}
        for vs in rng.sample(["FE00", "FE01", "E0100"], rng.randint(1, 3)):
            seqs[vs] = {}
            for cp, base in (("0061", "a"), ("1F600" if desc["glyphs"][2]["unicodes"][0] > 0xFFFF else "0075", "u")):
                if rng.random() < 0.7:
                    seqs[vs][cp] = rng.choice([base, "a.v1"])
            if not seqs[vs]:
                del seqs[vs]
        if not seqs:
            continue
        # always (cycled): a sequence naming a glyph that is NOT EXPORTED, a sequence whose base character has no glyph in the
        # font (the variant glyph exists), and a sequence naming a glyph the font does not have -- a sequence is kept exactly
        # when its glyph is in the compiled font
        odd = [None, "skipped-glyph", "base-without-glyph", None, "missing-glyph"][i % 5]
        if odd == "skipped-glyph":
            desc["lib"]["public.skipExportGlyphs"] = ["a.v1"]
            seqs.setdefault("FE00", {})["0061"] = "a.v1"
        elif odd == "base-without-glyph":
            seqs.setdefault("FE01", {})["0063"] = "a.v1"
        elif odd == "missing-glyph":
            seqs.setdefault("FE00", {})["0061"] = "ghost"
        desc["lib"]["public.unicodeVariationSequences"] = seqs
        import ufo2ft
        from fontTools.ttLib import TTFont
        case = {"font": jsonable(desc), "variant": odd}
        ctx.count(); ctx.klass("uvs" + (": " + odd if odd else ""))
        try:
            tt = ufo2ft.compileTTF(build_font(desc), useProductionNames=False)
            buf = io.BytesIO(); tt.save(buf); buf.seek(0); tt = TTFont(buf)
        except Exception as e:
            ctx.spec_failure(case, "compile / save raised %s: %s\n%s" % (type(e).__name__, e, traceback.format_exc()[-800:]))
            continue
        best = tt["cmap"].getBestCmap()
        t14 = [t for t in tt["cmap"].tables if t.format == 14]
        present = set(tt.getGlyphOrder())
        want = {}
        for vs, m in seqs.items():
            kept = {int(cp, 16): (None if best.get(int(cp, 16)) == gname else gname) for cp, gname in m.items() if gname in present}
            if kept:
                want[int(vs, 16)] = kept
        if len(t14) != (1 if want else 0):
            ctx.spec_failure(case, "expected %d format-14 subtable(s), got %d" % (1 if want else 0, len(t14))); continue
        got = {vs: dict(lst) for vs, lst in t14[0].uvsDict.items()} if t14 else {}
        ctx.nontriv(("uvs", repr(seqs), odd))
        # the transcription (Order/Uvs.v) on the same input: selectors and sequences in sorted order, as the binary table keeps them
        src_sorted = sorted((int(vs, 16), sorted((int(cp, 16), gname) for cp, gname in m.items())) for vs, m in seqs.items())
        obs_sorted = sorted((vs, sorted(lst)) for vs, lst in (t14[0].uvsDict.items() if t14 else []))
        uvs_cases.append(G.tup(G.lst([G.s(n) for n in sorted(present)], "str"),
                               G.lst([G.tup(G.z(u), G.s(n)) for u, n in sorted(best.items())], "(Z * str)"),
                               G.lst([G.tup(G.z(vs), G.lst([G.tup(G.z(cp), G.s(gn)) for cp, gn in l], "(Z * str)")) for vs, l in src_sorted], "(Z * list (Z * str))"),
                               G.lst([G.tup(G.z(vs), G.lst([G.tup(G.z(cp), G.opt(None if gn is None else G.s(gn), "str")) for cp, gn in l], "(Z * option str)"))
                                      for vs, l in obs_sorted], "(Z * list (Z * option str))")))
        uvs_meta.append(dict(case, uvsDict=jsonable(obs_sorted)))
        if got != want:
            ctx.spec_failure(case, "uvsDict %r, expected %r" % (got, want))
    vals = ctx.coq_eval("From U2F Require Import Base.Prelude Order.GlyphOrder Order.Uvs.",
                        "fun c : (list str * cmapping * uvs_src * uvs_out) => let '(gs, m, src, obs) := c in "
                        "if uvs_out_eqb (uvs_table gs m src) obs then 3 else 2", uvs_cases, chunk=100, tag="Uvs")
    for v, case in zip(vals, uvs_meta):
        if v is not None and v != 3:
            ctx.corr_mismatch(case, "Gallina uvs_table (Order/Uvs.v) differs from the compiled cmap format 14 subtable")
