"""C18 -- GDEF classes, ligature carets and cursive anchors mirror the UFO data."""
import io, traceback
from fractions import Fraction as Fr
from harness import gterm as G, geom
from harness.fonts import build_font, jsonable
from harness.otl import Layout

PID = "C18"
LEVEL_TEXT = ("Proof + correspondence: Coq functions give, for any glyph list / categories / anchors, the GDEF class map (categories "
              "restricted to exported glyphs, invalid values dropped), the ligature caret list (set of caret_ x / vcaret_ y "
              "coordinates, sorted, each otRound-ed) and the set of cursive records (entry/exit pairs incl. suffixed ones, rounded, "
              "with the right-to-left flag); theorems: the class map is sound and complete w.r.t. the categories of exported "
              "glyphs, carets come out in increasing order and each is a rounded source coordinate, the RTL flag is decided by an "
              "explicit .LTR/.RTL suffix and otherwise cleared exactly for glyphs of left-to-right scripts. WHICH glyphs those are "
              "is util.classifyGlyphs, modelled in Mark/Direction.v: under the hypothesis that the subsetter's GSUB closure is "
              "reachability over single substitutions, the classified set is exactly the set reachable from the cmap's "
              "left-to-right glyphs through GSUB and designspace-rule substitutions (C18_classification_is_reachability, sound "
              "also with neutral glyphs), the two cursive lookups partition the anchored glyphs accordingly; the pre-repair "
              "single pass is refuted (F24). The Gallina classify is compared with classifyGlyphs on random substitution graphs "
              "(feaLib-compiled GSUB, fontTools closure), and compiled static / interpolatable / variable fonts with GSUB and "
              "rule substitutions are judged against an independently computed closure. These functions are "
              "evaluated with vm_compute and compared with GDEF.GlyphClassDef / LigCaretList and the CursivePos lookups read from "
              "compiled fonts; a user-written GDEF block must survive untouched.")
LEVEL_NOTE = ("Trusted: Coq kernel, hand model, harness, GPOS/GDEF reader, feaLib. The set of left-to-right glyphs of the fonts without substitutions is computed "
              "from fontTools.unicodedata alone; the GSUB closure of the fontTools subsetter is environment (a hypothesis of the "
              "closure theorems). 'entry/exit anchors' = names whose counterpart occurs somewhere in "
              "the font; coordinates are read from the source font (DESIGN C18).")
TECHNIQUE = "Coq functions + theorems for GDEF classes / carets / cursive records, vm_compute comparison with the compiled GDEF and GPOS"
IMPORTS = "From U2F Require Import Base.Prelude Geometry.Model Kern.Model Mark.Model Mark.Gdef."
RULE = ("fonts mixing Latin, Arabic, Hebrew and unencoded glyphs; public.openTypeCategories with valid, 'unassigned', invalid "
        "values and names of absent glyphs; caret_N / vcaret_N anchors (unsorted, duplicate, fractional, x.5); entry/exit anchors "
        "plain, suffixed (.2, .LTR, .RTL), one-sided, with one half missing from the whole font; user GDEF table on/off. "
        "Non-trivial = the font has at least one cursive pair or caret or category."
        " Compound cursive suffixes (entry.1.LTR, entry.alt.LTR, entry.2.RTL); the same writer objects reused for several fonts must give each font its own data; coordinates 0 and +-1/4.")
ASSUMPTIONS = []

FN = ("fun c : (list mglyph * list (str * Z) * list str * list (str * Z) * list (str * list Z) * list curs_rec) => "
      "let '(gs, cats, ltr, oc, ok, ou) := c in c18_check gs cats ltr oc ok ou")

GLY = [("a", 0x61), ("f_i", None), ("f_f_i", None), ("beh-ar", 0x628), ("alef-ar", 0x627), ("bet-hb", 0x5D1), ("acutecomb", 0x301),
       ("x.alt", None), ("T", 0x54), ("period", 0x2E)]
# (values that are not exactly one of the five category names are invalid and ignored -- also look-alikes that differ in case
# or carry blanks)
CATV = {"base": 1, "ligature": 2, "mark": 3, "component": 4, "unassigned": 0, "bogus": 0,
        "Base": 0, "MARK": 0, "mark ": 0, " ligature": 0, "Component": 0, "marks": 0}
LOOKALIKES = ["Base", "MARK", "mark ", " ligature", "Component", "marks"]


def coord(rng):
    # boundary values on purpose: exactly 0, values that round to 0, negative
    return rng.choice([Fr(rng.randint(-100, 900)), Fr(rng.randint(-200, 1800), 2), Fr(rng.randint(0, 3600), 4),
                       rng.choice([Fr(0), Fr(0), Fr(1, 4), Fr(-1, 4), Fr(-1, 2), Fr(-1)])])


def gen(rng, lookalike=None):
    items = rng.sample(GLY, rng.randint(3, 8))
    glyphs = []
    # (direction suffixes also after another name component: entry.1.LTR / exit.1.LTR, entry.alt.RTL ...)
    # (... and suffixes that begin with a letter of the word "entry" itself, or with another dot)
    suffixes = rng.sample(["", "", ".2", ".LTR", ".RTL", ".alt", ".1.LTR", ".alt.LTR", ".2.RTL", ".top", ".end", ".narrow", ".y", ".retry.RTL", "..x"], rng.randint(0, 5))
    for n, u in items:
        anchors = []
        if "_" in n and rng.random() < 0.8:
            for k in rng.sample(range(1, 5), rng.randint(1, 3)):
                anchors.append(("caret_%d" % k, coord(rng), Fr(0)))
            if rng.random() < 0.3:
                anchors.append(("vcaret_1", Fr(0), coord(rng)))
            if rng.random() < 0.3 and anchors:
                anchors.append(("caret_9", anchors[0][1], Fr(5)))     # duplicate coordinate
        for suf in suffixes:
            r = rng.random()
            if r < 0.5:
                anchors.append(("entry" + suf, coord(rng), coord(rng)))
                anchors.append(("exit" + suf, coord(rng), coord(rng)))
            elif r < 0.65:
                anchors.append(("entry" + suf, coord(rng), coord(rng)))
            elif r < 0.8:
                anchors.append(("exit" + suf, coord(rng), coord(rng)))
        if rng.random() < 0.2:
            anchors.append(("top", coord(rng), coord(rng)))
        rng.shuffle(anchors)
        glyphs.append({"name": n, "unicodes": [u] if u else [], "width": 500, "anchors": anchors, "contours": []})
    cats = {}
    if rng.random() < 0.7:
        for n, _ in items:
            if rng.random() < 0.7:
                cats[n] = rng.choice(list(CATV))
        if rng.random() < 0.3:
            cats["ghost"] = "base"
    fea = ""
    user_gdef = rng.random() < 0.15
    if lookalike is not None and not user_gdef:
        # always: two glyphs with a valid category and one whose value only LOOKS like a category name
        ns = [n for n, _ in items]
        cats[ns[0]] = "base"
        cats[ns[1]] = LOOKALIKES[lookalike % len(LOOKALIKES)]
        cats[ns[2]] = ["mark", "ligature"][lookalike % 2]
    if user_gdef:
        names = [g["name"] for g in glyphs]
        fea = "table GDEF {\n    GlyphClassDef [%s], , [%s], ;\n} GDEF;\n" % (names[0], names[1])
    return {"glyphs": glyphs, "lib": ({"public.openTypeCategories": cats} if cats else {}), "features": fea, "user_gdef": user_gdef}


def is_ltr(u):
    from fontTools import unicodedata as ud
    sc = ud.script(chr(u))
    return sc not in ("Zyyy", "Zinh") and ud.script_horizontal_direction(sc, "LTR") == "LTR"


def classify_model_section(ctx, func=None, keys=(("LTR", "L"), ("RTL", "R")), chars=None, tag="classify"):
    """util.classifyGlyphs against Mark/Direction.v on random substitution graphs: a cmap of LTR / RTL / neutral characters,
    GSUB single substitutions (compiled by feaLib, closed by the fontTools subsetter) and designspace-rule substitutions.
    `func` is the character property (default: the script direction the cursive writer uses; C05 passes the kern writer's
    bidi type), `keys` the property values paired with the generator's kinds, `chars` the characters of each kind."""
    from fontTools.ttLib import TTFont
    from fontTools.feaLib.builder import addOpenTypeFeaturesFromString
    from ufo2ft.util import classifyGlyphs, unicodeScriptDirection
    func = func or unicodeScriptDirection
    rng = ctx.subrng(tag + "-model")
    CH = chars or {"L": [0x61, 0x62, 0x63, 0x3B1], "R": [0x627, 0x628, 0x5D0], "N": [0x2E, 0x2C, 0x30]}
    cases, meta = [], []
    for i in range(ctx.budget(60, 400)):
        n = rng.randint(3, 9)
        names = ["g%d" % k for k in range(n)]
        kinds = {}
        cmap = {}
        pool = {k: list(v) for k, v in CH.items()}
        for nm in names:
            k = rng.choice(["L", "R", "N", None, None])
            if k and pool[k]:
                cmap[pool[k].pop()] = nm
                kinds[nm] = k
        gsub_edges = sorted({((rng.choice(names),), rng.choice(names)) for _ in range(rng.randint(0, 6))})
        gsub_edges = [(a, b) for a, b in gsub_edges if a[0] != b]
        # ligature rules (two inputs): reached only when BOTH inputs are -- often one input is a neutral glyph
        for _ in range(rng.randint(0, 3)):
            x, y, z = rng.sample(names, 3)
            gsub_edges.append(((x, y), z))
        extra_edges = sorted({(rng.choice(names), rng.choice(names)) for _ in range(rng.randint(0, 4))})
        has_gsub = bool(gsub_edges) and i % 5 != 4
        gsub = None
        if has_gsub:
            tt = TTFont(); tt.setGlyphOrder([".notdef"] + names)
            fea = "".join("feature ss%02d {\n    sub %s by %s;\n} ss%02d;\n" % (k + 1, " ".join(a), b, k + 1) for k, (a, b) in enumerate(gsub_edges))
            addOpenTypeFeaturesFromString(tt, fea)
            gsub = tt["GSUB"]
        extras = {}
        for a, b in extra_edges:
            extras.setdefault(a, set()).add(b)
        case = {"cmap": {hex(u): g for u, g in cmap.items()}, "gsub_rules": [[list(a), b] for a, b in gsub_edges] if has_gsub else None,
                "extra_substitutions": extra_edges}
        try:
            got = classifyGlyphs(func, cmap, gsub, extras or None)
        except Exception as e:
            ctx.spec_failure(case, "classifyGlyphs raised %s: %s" % (type(e).__name__, e))
            continue
        ctx.count(); ctx.klass("%s: gsub=%s extras=%s" % (tag, has_gsub, bool(extra_edges)))
        if extra_edges and has_gsub:
            ctx.nontriv(("cl", i, ctx.scale))
        gl = lambda xs: G.lst([G.s(x) for x in xs], "str")
        ge = lambda es: G.lst([G.tup(G.s(a), G.s(b)) for a, b in es], "(str * str)")
        gr = lambda es: G.lst([G.tup(gl(a), G.s(b)) for a, b in es], "rule")
        for key, kk in keys:
            init = [nm for nm in names if kinds.get(nm) == kk]
            if not init and key not in got:
                continue
            cases.append(G.tup(gr(gsub_edges if has_gsub else []), ge(extra_edges), G.b(has_gsub), gl(init),
                               gl([nm for nm in names if kinds.get(nm) == "N"]), gl(sorted(got.get(key, set())))))
            meta.append(dict(case, key=key, implementation=sorted(got.get(key, set()))))
    vals = ctx.coq_eval("From U2F Require Import Base.Prelude Mark.Direction.",
                        "fun c : (list rule * list (str * str) * bool * list str * list str * list str) => "
                        "let '(g, x, b, l, n, got) := c in if same_set (classify (closure g) x b l n) got then 3 else 2",
                        cases, chunk=100, tag="Classify")
    for v, case in zip(vals, meta):
        if v is not None and v != 3:
            ctx.corr_mismatch(case, "Gallina classify (Mark/Direction.v) differs from util.classifyGlyphs")


def user_caret_section(ctx):
    """'left alone when the user's features define them', for ligature carets: a hand-written GDEF table that gives carets by
    position, by contour point index, or both, keeps exactly those carets (nothing is added from the caret_ anchors); one
    that gives only glyph classes, or no table at all, gets the carets of the anchors"""
    import ufo2ft
    from fontTools.ttLib import TTFont
    glyphs = [{"name": "f", "unicodes": [0x66], "width": 300, "contours": [], "components": [], "anchors": []},
              {"name": "i", "unicodes": [0x69], "width": 250, "contours": [], "components": [], "anchors": []},
              {"name": "f_i", "unicodes": [], "width": 520, "components": [], "anchors": [("caret_1", Fr(260), Fr(0))],
               "contours": [[(Fr(0), Fr(0), "line"), (Fr(480), Fr(0), "line"), (Fr(480), Fr(500), "line"), (Fr(0), Fr(500), "line")]]},
              {"name": "f_f_i", "unicodes": [], "width": 800, "components": [], "contours": [],
               "anchors": [("caret_2", Fr(400), Fr(0)), ("caret_1", Fr(200), Fr(0))]}]
    PARTS = {"classes": "    GlyphClassDef [f i], [f_i f_f_i], , ;\n", "pos": "    LigatureCaretByPos f_i 222;\n",
             "index": "    LigatureCaretByIndex f_i 2;\n"}
    from_anchors = {"f_i": [(1, 260)], "f_f_i": [(1, 200), (1, 400)]}
    variants = [(), ("classes",), ("pos",), ("index",), ("classes", "index"), ("pos", "index"), ("classes", "pos"),
                # the user's GDEF table written as TWO table blocks (feaLib merges them): what the user defines does not depend
                # on which block holds it; here the lib's categories DISAGREE with the user's classes (i: mark vs base)
                (("pos",), ("classes",)), (("classes",), ("pos",)), (("classes",), ("index",)), (("index",), ("classes", "pos"))]
    for i in range(ctx.budget(len(variants) * 2, len(variants) * 4)):
        v = variants[i % len(variants)]
        lib = ["ufoLib2", "defcon"][(i // len(variants)) % 2]
        split = bool(v) and isinstance(v[0], tuple)
        blocks = list(v) if split else ([v] if v else [])
        v = tuple(k for b in blocks for k in b)
        fea = "languagesystem DFLT dflt;\n" + "".join("table GDEF {\n" + "".join(PARTS[k] for k in b) + "} GDEF;\n" for b in blocks)
        desc = {"glyphs": glyphs, "features": fea, "lib": {"public.openTypeCategories": {"f": "base", "i": "mark" if split else "base", "f_i": "ligature", "f_f_i": "ligature"}}}
        want = dict(from_anchors)
        if "pos" in v or "index" in v:
            want = {"f_i": ([(1, 222)] if "pos" in v else []) + ([(2, 2)] if "index" in v else [])}
        case = {"features": fea, "user_gdef_statements": [list(b) for b in blocks], "lib": lib, "expected_carets": {k: list(x) for k, x in want.items()}}
        ctx.count(); ctx.klass("user GDEF: " + (" | ".join("+".join(b) for b in blocks) or "no table")); ctx.nontriv(("ucaret", i, ctx.scale))
        try:
            tt = ufo2ft.compileTTF(build_font(desc, lib), useProductionNames=False)
            buf = io.BytesIO(); tt.save(buf); buf.seek(0); tt = TTFont(buf)
        except Exception as e:
            ctx.spec_failure(case, "compile raised %s: %s\n%s" % (type(e).__name__, e, traceback.format_exc()[-1000:]))
            continue
        got = {}
        gdef = tt["GDEF"].table if "GDEF" in tt else None
        if gdef is not None and gdef.LigCaretList is not None:
            for g, lg in zip(gdef.LigCaretList.Coverage.glyphs, gdef.LigCaretList.LigGlyph):
                got[g] = sorted((cv.Format, cv.Coordinate if cv.Format == 1 else cv.CaretValuePoint) for cv in lg.CaretValue)
        if "classes" in v:
            cls = dict(gdef.GlyphClassDef.classDefs) if gdef is not None and gdef.GlyphClassDef is not None else {}
            if cls != {"f": 1, "i": 1, "f_i": 2, "f_f_i": 2}:
                ctx.spec_failure(dict(case, compiled_classes=cls), "the user's GlyphClassDef was not left alone: compiled classes %r" % cls)
        if got != {k: sorted(x) for k, x in want.items()}:
            ctx.spec_failure(dict(case, compiled_carets={k: list(x) for k, x in got.items()}),
                             "ligature carets %r, expected %r (%s)" % (got, want, "the user's table defines carets: left alone" if ("pos" in v or "index" in v)
                                                                      else "from the caret_ anchors"))


def direction_closure_section(ctx):
    """'glyphs of left-to-right scripts' includes the unencoded glyphs that LTR characters turn into: through GSUB rules of the
    feature file and through designspace <rule> substitutions (handed to the writers as extra substitutions). Independent
    statement: closure of the cmap under both kinds of substitution; the cursive lookup's RightToLeft flag is cleared exactly
    for the glyphs in the LTR closure."""
    import ufo2ft
    from fontTools.ttLib import TTFont
    from fontTools.designspaceLib import RuleDescriptor
    from harness import dsgen
    rng = ctx.subrng("direction-closure")
    GL = [("n", 0x6E), ("o", 0x6F), ("n.alt", None), ("n.sc", None), ("behDotless-ar", 0x66E), ("behDotless-ar.fina", None),
          ("behDotless-ar.alt", None), ("orphan", None), ("n.alt.sc", None), ("n.alt2", None), ("hyphen", 0x2D), ("n_hyphen", None), ("n.alt3", None)]
    # (n.alt3: the substitute of n in a SECOND rule on the same glyph -- both substitutes are left-to-right)
    # (n.alt.sc is reached from n only through a designspace rule FOLLOWED by a GSUB rule, n.alt2 through two rules)
    # (n_hyphen: a ligature of a left-to-right letter and a NEUTRAL glyph -- reachable only when the neutral glyphs take part)
    GSUB = ("feature smcp {\n    sub n by n.sc;\n    sub n.alt by n.alt.sc;\n} smcp;\nfeature liga {\n    sub n hyphen by n_hyphen;\n} liga;\n"
            "feature fina {\n    sub behDotless-ar by behDotless-ar.fina;\n} fina;\n")
    for i in range(ctx.budget(12, 48)):
        lib = ["ufoLib2", "defcon"][i % 2]
        with_gsub = i % 2 == 0 or i % 6 == 5
        mode = ["static", "interpolatable-ttf-from-ds", "variable-ttf-static-features", "interpolatable-otf-from-ds",
                "variable-ttf", "interpolatable-ttf-from-ds"][i % 6]
        glyphs = [{"name": n, "unicodes": [u] if u else [], "width": 500, "contours": [], "components": [],
                   "anchors": [("entry", Fr(rng.randint(0, 80)), Fr(rng.randint(0, 50))), ("exit", Fr(rng.randint(400, 500)), Fr(rng.randint(0, 50)))]}
                  for n, u in GL]
        desc = {"glyphs": glyphs, "features": "languagesystem DFLT dflt;\n" + (GSUB if with_gsub else ""), "glyphOrder": [n for n, _ in GL]}
        rules = mode != "static"
        # closure of the cmap's left-to-right glyphs under the GSUB rules above and the designspace rules below
        edges = ([(("n",), "n.sc"), (("n.alt",), "n.alt.sc"), (("n", "hyphen"), "n_hyphen")] if with_gsub else []) + \
                ([(("n",), "n.alt"), (("n.alt",), "n.alt2"), (("n",), "n.alt3")] if rules else [])
        ltr, neutral = {"n", "o"}, {"hyphen"}
        while True:
            more = {b for a, b in edges if all(x in ltr | neutral for x in a)} - ltr - neutral
            if not more:
                break
            ltr |= more
        case = {"font": jsonable(desc), "lib": lib, "mode": mode, "gsub_features": with_gsub,
                "designspace_rules": [["n", "n.alt"], ["behDotless-ar", "behDotless-ar.alt"], ["n.alt", "n.alt2"], ["n", "n.alt3"]] if rules else [],
                "expected_ltr_glyphs": sorted(ltr)}
        ctx.count(); ctx.klass("direction closure: %s/%s" % (mode, "gsub" if with_gsub else "no-gsub")); ctx.nontriv(("dc", i, ctx.scale))
        try:
            if not rules:
                tts = [ufo2ft.compileTTF(build_font(desc, lib), useProductionNames=False)]
            else:
                r2 = __import__("random").Random(i)
                ds, ufos = dsgen.make_designspace(r2, [desc, dsgen.perturb(r2, desc, 1)], lib, instances=False)
                r = RuleDescriptor(); r.name = "alt"
                r.conditionSets = [[{"name": ds.axes[0].name, "minimum": 500, "maximum": ds.axes[0].maximum}]]
                r.subs = [("n", "n.alt"), ("behDotless-ar", "behDotless-ar.alt")]
                ds.rules.append(r)
                r = RuleDescriptor(); r.name = "alt2"
                r.conditionSets = [[{"name": ds.axes[0].name, "minimum": 700, "maximum": ds.axes[0].maximum}]]
                r.subs = [("n.alt", "n.alt2")]
                ds.rules.append(r)
                r = RuleDescriptor(); r.name = "alt3"
                r.conditionSets = [[{"name": ds.axes[0].name, "minimum": ds.axes[0].minimum, "maximum": 300}]]
                r.subs = [("n", "n.alt3")]
                ds.rules.append(r)
                ds.rulesProcessingLast = i % 4 == 1         # rvrn (rules first: a rule's substitute meets the GSUB rules) or rclt
                if mode == "interpolatable-ttf-from-ds":
                    tts = [sd.font for sd in ufo2ft.compileInterpolatableTTFsFromDS(ds, useProductionNames=False).sources]
                elif mode == "interpolatable-otf-from-ds":
                    tts = [sd.font for sd in ufo2ft.compileInterpolatableOTFsFromDS(ds, useProductionNames=False).sources]
                elif mode == "variable-ttf-static-features":
                    tts = [ufo2ft.compileVariableTTF(ds, useProductionNames=False, variableFeatures=False)]
                else:
                    tts = [ufo2ft.compileVariableTTF(ds, useProductionNames=False)]
        except Exception as e:
            ctx.spec_failure(case, "compile raised %s: %s\n%s" % (type(e).__name__, e, traceback.format_exc()[-1200:]))
            continue
        for k, tt in enumerate(tts):
            buf = io.BytesIO(); tt.save(buf); buf.seek(0)
            lay = Layout(TTFont(buf))
            seen = {}
            for li, flag, recs in lay.cursive():
                for g in recs:
                    seen[g] = bool(flag & 1)
            want = {n: n not in ltr for n, _ in GL}
            if seen != want:
                wrong = sorted(g for g in want if seen.get(g) != want[g])
                ctx.spec_failure(dict(case, font_index=k, right_to_left_flag_by_glyph=seen),
                                 "RightToLeft flag of the cursive lookup is wrong for %r (LTR closure of the cmap under GSUB and rule "
                                 "substitutions is %r)" % (wrong, sorted(ltr)))
                break


def variable_values_section(ctx):
    """the property on VARIABLE fonts: three masters whose entry / exit anchors and ligature carets differ; the variable font
    (glyf and CFF2, variable features and per-master features), instantiated at every master's USER location -- one family in
    two has a non-identity axis <map>, the middle master sitting at design 500 = user 400 -- has that master's cursive records
    and carets"""
    import ufo2ft
    from fontTools.ttLib import TTFont
    from fontTools.varLib import instancer
    from harness import dsgen
    rng = ctx.subrng("variable-values")
    for i in range(ctx.budget(8, 24)):
        lib = ["ufoLib2", "defcon"][i % 2]
        mapped = i % 2 == 0
        fn = ["compileVariableTTF", "compileVariableCFF2"][(i // 2) % 2]
        vfeat = (i // 4) % 2 == 0
        d = [0, rng.choice([7, 12, 25]), rng.choice([40, 64])]           # not linear along the axis
        if i % 4 == 1:
            d[2] = 0            # ... and not monotonic: the first and the last master agree, the middle one differs
        # one family in four has NO left-to-right code point at all (an Arabic-only font): the cursive writer then adds its
        # statements before anybody compiled the temporary GSUB (repaired defect F29)
        rtl_only = i % 4 == 3

        def master(k):
            tri = lambda x: [[(Fr(x), Fr(0), "line"), (Fr(x + 100 + 5 * k), Fr(0), "line"), (Fr(x + 50), Fr(100), "line")]]
            gl = [{"name": "a", "unicodes": [0x61], "width": Fr(500 + 10 * k), "components": [], "contours": tri(0), "anchors": []},
                  {"name": "beh-ar", "unicodes": [0x628], "width": Fr(600), "components": [], "contours": tri(10),
                   "anchors": [("entry", Fr(500 + d[k]), Fr(10 + d[k])), ("exit", Fr(0), Fr(-d[k]))]},
                  {"name": "n", "unicodes": [0x6E], "width": Fr(550), "components": [], "contours": tri(20),
                   "anchors": [("entry", Fr(5), Fr(d[k])), ("exit", Fr(540 + d[k]), Fr(3))]},
                  {"name": "f_f_i", "unicodes": [], "width": Fr(900), "components": [], "contours": tri(30),
                   "anchors": [("caret_1", Fr(300 + d[k]), Fr(0)), ("caret_2", Fr(600 + 2 * d[k]), Fr(0)), ("vcaret_1", Fr(0), Fr(200 - d[k]))]}]
            if rtl_only:
                gl = [g for g in gl if g["name"] not in ("a", "n")]
            return {"glyphs": gl, "glyphOrder": [g["name"] for g in gl], "kerning": {}, "groups": {},
                    "features": "languagesystem DFLT dflt;\nlanguagesystem latn dflt;\nlanguagesystem arab dflt;\n",
                    "lib": {"public.openTypeCategories": {"a": "base", "beh-ar": "base", "n": "base", "f_f_i": "ligature"}},
                    "info": {"familyName": "Fam", "styleName": "M%d" % k, "unitsPerEm": 1000, "ascender": 800, "descender": -200}}
        masters = [master(k) for k in range(3)]
        case = {"function": fn, "variableFeatures": vfeat, "lib": lib, "axis_map": [(100, 100), (400, 500), (900, 900)] if mapped else None,
                "no_left_to_right_code_point": rtl_only, "masters": [jsonable(m) for m in masters]}
        ctx.count(); ctx.klass("variable values: %s/vfeat=%s%s%s" % (fn, vfeat, "/axis map" if mapped else "", "/rtl only" if rtl_only else "")); ctx.nontriv(("vv", i, ctx.scale))
        try:
            ds, fonts = dsgen.make_designspace(rng, masters, lib, instances=False)
            if mapped:
                ds.axes[0].map = [(100, 100), (400, 500), (900, 900)]
            vf = getattr(ufo2ft, fn)(ds, variableFeatures=vfeat, useProductionNames=False)
            b = io.BytesIO(); vf.save(b)
        except Exception as e:
            ctx.spec_failure(case, "%s raised %s: %s\n%s" % (fn, type(e).__name__, e, traceback.format_exc()[-1000:]))
            continue
        for k, wght in enumerate([100, 400 if mapped else 500, 900]):
            inst = instancer.instantiateVariableFont(TTFont(io.BytesIO(b.getvalue())), {"wght": wght})
            b2 = io.BytesIO(); inst.save(b2)
            lay = Layout(TTFont(io.BytesIO(b2.getvalue())))
            by = {g["name"]: {a[0]: (int(a[1]), int(a[2])) for a in g["anchors"]} for g in masters[k]["glyphs"]}
            got = {}
            for li, flag, recs in lay.cursive():
                for g, (en, ex) in recs.items():
                    got[g] = (tuple(en[:2]) if en else None, tuple(ex[:2]) if ex else None)
            want = {g: (by[g]["entry"], by[g]["exit"]) for g in ("beh-ar", "n") if g in by}
            if got != want:
                ctx.spec_failure(dict(case, master=k, user_location=wght, cursive_records=jsonable(got)),
                                 "at master %d's location (user wght=%s) the cursive records are %r; that master's entry / exit anchors are %r" % (k, wght, got, want))
                break
            carets = sorted(c for _, c in lay.lig_carets().get("f_f_i", []))
            wantc = sorted([by["f_f_i"]["caret_1"][0], by["f_f_i"]["caret_2"][0], by["f_f_i"]["vcaret_1"][1]])
            if carets != wantc:
                ctx.spec_failure(dict(case, master=k, user_location=wght, carets=carets),
                                 "at master %d's location (user wght=%s) the carets of f_f_i are %r; that master's caret anchors give %r" % (k, wght, carets, wantc))
                break


def explore(ctx):
    user_caret_section(ctx)
    variable_values_section(ctx)
    direction_closure_section(ctx)
    classify_model_section(ctx)
    import ufo2ft
    from fontTools.ttLib import TTFont
    from ufo2ft.util import classifyGlyphs, unicodeScriptDirection
    rng = ctx.subrng("gdef")
    cases, meta = [], []
    for i in range(ctx.budget(80, 600)):
        desc = gen(rng, lookalike=(i // 4) if i % 4 == 2 else None)
        lib = rng.choice(["ufoLib2", "defcon"])
        case = {"font": jsonable(desc), "lib": lib}
        try:
            tt = ufo2ft.compileTTF(build_font(desc, lib), useProductionNames=False)
            buf = io.BytesIO(); tt.save(buf); buf.seek(0); tt = TTFont(buf)
        except Exception as e:
            ctx.spec_failure(case, "compile raised %s: %s\n%s" % (type(e).__name__, e, traceback.format_exc()[-1200:]))
            continue
        lay = Layout(tt)
        names = [g["name"] for g in desc["glyphs"]]
        cmap = {g["unicodes"][0]: g["name"] for g in desc["glyphs"] if g["unicodes"]}
        ltr = sorted(n for u, n in cmap.items() if is_ltr(u))      # stated with fontTools.unicodedata only, not with ufo2ft.util
        obs_classes = {g: c for g, c in lay.glyph_classes().items() if g in names}
        obs_carets = {g: [c for _, c in v] for g, v in lay.lig_carets().items()}
        obs_curs = []
        for li, flag, recs in lay.cursive():
            for g, (en, ex) in recs.items():
                obs_curs.append((bool(flag & 1), g, en, ex))
            if not flag & 0x8:
                ctx.spec_failure(case, "cursive lookup %d does not ignore marks (flag %d)" % (li, flag))
        ctx.count()
        ctx.klass("user-gdef" if desc["user_gdef"] else "generated-gdef")
        if obs_curs or obs_carets or obs_classes:
            ctx.nontriv(("g", i, ctx.scale))
        cats = desc["lib"].get("public.openTypeCategories", {})
        if desc["user_gdef"]:
            want = {names[0]: 1, names[1]: 3}
            if obs_classes != want:
                ctx.spec_failure(case, "user GDEF GlyphClassDef was not left alone: %r, expected %r" % (obs_classes, want))
            cats_term = G.lst([G.tup(G.s(k), G.z(v)) for k, v in want.items()], "(str * Z)")
        else:
            cats_term = G.lst([G.tup(G.s(k), G.z(CATV[v])) for k, v in cats.items()], "(str * Z)")
        g_gs = G.lst(["(mkMG %s %s)" % (G.s(g["name"]), G.lst(
            ["(mkMA %s %s %s)" % (G.s(a[0]), geom.g_q(a[1]), geom.g_q(a[2])) for a in g["anchors"]], "manchor"))
            for g in desc["glyphs"]], "mglyph")

        def oz(p):
            return G.opt(None if p is None else G.tup(G.z(p[0]), G.z(p[1])), "(Z * Z)")
        cases.append(G.tup(g_gs, cats_term, G.lst([G.s(x) for x in ltr], "str"),
                           G.lst([G.tup(G.s(k), G.z(v)) for k, v in obs_classes.items()], "(str * Z)"),
                           G.lst([G.tup(G.s(k), G.lst([G.z(x) for x in v], "Z")) for k, v in obs_carets.items()], "(str * list Z)"),
                           G.lst([G.tup(G.tup(G.tup(G.b(r), G.s(g)), oz(en)), oz(ex)) for r, g, en, ex in obs_curs], "curs_rec")))
        meta.append(dict(case, observed={"classes": obs_classes, "carets": obs_carets, "cursive": jsonable(obs_curs), "ltr_glyphs": ltr}))
    # ---- the same writer OBJECTS used for several fonts in a row (featureWriters=[instances], as compileInterpolatableTTFs
    # does for its masters): every font must still get its own data
    from ufo2ft.featureWriters import KernFeatureWriter, MarkFeatureWriter, GdefFeatureWriter, CursFeatureWriter
    rng2 = ctx.subrng("shared-writers")
    for i in range(ctx.budget(8, 60)):
        lib = ["ufoLib2", "defcon"][i % 2]
        descs = [gen(rng2) for _ in range(rng2.choice([2, 3]))]
        case = {"fonts": [jsonable(d) for d in descs], "lib": lib, "level": "shared feature-writer instances"}
        ctx.count(); ctx.klass("shared writer instances x %d fonts" % len(descs)); ctx.nontriv(("shared", i, ctx.scale))
        try:
            def layout_bytes(tt):
                b = io.BytesIO(); tt.save(b); t2 = TTFont(io.BytesIO(b.getvalue()))
                return {t: t2.reader[t] for t in ("GDEF", "GPOS") if t in t2.reader}
            ref = [layout_bytes(ufo2ft.compileTTF(build_font(d, lib), useProductionNames=False)) for d in descs]
            writers = [KernFeatureWriter(), MarkFeatureWriter(), GdefFeatureWriter(), CursFeatureWriter()]
            got = [layout_bytes(ufo2ft.compileTTF(build_font(d, lib), useProductionNames=False, featureWriters=writers)) for d in descs]
        except Exception as e:
            ctx.spec_failure(case, "compile raised %s: %s\n%s" % (type(e).__name__, e, traceback.format_exc()[-1000:]))
            continue
        for k, (r, g) in enumerate(zip(ref, got)):
            if r != g:
                ctx.spec_failure(dict(case, font_index=k), "font #%d compiled with writer objects that had already been used for another font: "
                                 "its %s differ(s) from a compile with fresh writers" % (k, "/".join(t for t in ("GDEF", "GPOS") if r.get(t) != g.get(t))))
                break
    vals = ctx.coq_eval(IMPORTS, FN, cases, chunk=40, tag="Gdef")
    for v, case in zip(vals, meta):
        if v is None or v == 0:
            continue
        what = [t for b, t in ((1, "GDEF glyph classes differ from the categories of exported glyphs"),
                               (2, "ligature carets are not the sorted rounded caret_/vcaret_ coordinates"),
                               (4, "cursive records / right-to-left flags differ from the entry/exit anchors")) if v & b]
        ctx.spec_failure(case, "; ".join(what))
    if meta:
        ctx.sample({"glyphs": meta[0]["font"]["glyphs"][:2], "observed": meta[0]["observed"]})
