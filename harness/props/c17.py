"""C17 -- automatic features only add to the user's feature file."""
import io, re, traceback
from fractions import Fraction as Fr
from harness import gterm as G
from harness.fonts import build_font, jsonable

PID = "C17"
LEVEL_TEXT = ("Proof + correspondence: Coq model of BaseFeatureWriter.setContext ('skip' mode todo list), collectInsertMarkers and "
              "_insert (marker alone / top / bottom / middle with block splitting, dependent features, lookups before the first "
              "inserted feature, definitions at the top) on an abstract feature file; theorem, for ALL feature files, generated "
              "feature lists and marker placements, with no hypothesis: the sequence of the user's statements after _insert equals "
              "the sequence before; and a feature written without the marker is never in the todo list; which comment IS the marker "
              "(optional whitespace, '# Automatic Code', anything -- anchored at the start) is Fea/Marker.v, compared with "
              "re.match(INSERT_FEATURE_MARKER, .) on look-alike comments. The model is compared with "
              "the real setContext/_insert on generated feature files parsed by feaLib, and the leaf-preservation statement is "
              "evaluated in Coq on the real output. Observed on the implementation: user statements of the debug feature file in "
              "order, GSUB bytes identical with the default writers vs none, no duplicate of an unmarked hand-written feature, "
              "GSUB writers run first."
              " BaseFeatureWriter._contextAt is TRANSLATED from /repo's source on every run (harness/fea_from_source.py -> Generated/FeaGen.v) and proved equal to the model (Fea/ContextTied.v): the context theorems are restated about the translated code.")
LEVEL_NOTE = ("Trusted: Coq kernel, hand model (correspondence-tested), harness, feaLib parser/serialiser. That feaLib builds GSUB "
              "from the user's statements only is environment, observed through the byte comparison.")
TECHNIQUE = "Coq proof that _insert preserves the user's statement sequence (all inputs; _contextAt translated from source and proved equal to its model) + vm_compute correspondence with the real _insert; GSUB byte comparison"
IMPORTS = "From U2F Require Import Base.Prelude Fea.Insert."
RULE = ("abstract feature files of 0-8 top-level statements: user statements, feature blocks for tags {kern,mark,mkmk,liga} with "
        "0-5 items (rules, comments, the '# Automatic Code' marker at top/middle/bottom/alone/twice), generated feature lists "
        "[kern], [mark,mkmk], [abvm,blwm,mark,mkmk], 0-3 lookups, 0-2 definitions. Non-trivial = at least one marker is "
        "consumed. Plus compiled fonts with hand-written kern/mark/liga features and markers."
        " Hand-written GDEF tables (classes / carets by position / by contour point) and a Kannada font with hand-written abvm / blwm / mark / mkmk combinations: nothing the user wrote is duplicated or altered.")
ASSUMPTIONS = []

FN = ("fun c : (list stmt * list str * list str * nat * nat * list stmt) => let '(f, tags, feats, nl, nd, obs) := c in "
      "let mk := collect_markers f tags in let td := todo f tags in "
      "let m := insert_all f (filter (fun t => mem t td) feats) mk nl nd 1000 in "
      "let no_dup := forallb (fun s => match s with Gen t => negb (mem t (existing_tags f)) || mem t (keys mk) | _ => true end) obs in "
      "((if list_eqb stmt_eqb m obs then 1 else 0) + (if list_eqb leaf_eqb (leaves obs) (leaves f) && no_dup then 2 else 0))%Z")

TAGSETS = [(["kern"], ["kern"]), (["mark", "mkmk"], ["mark", "mkmk"]), (["abvm", "blwm", "mark", "mkmk"], ["abvm", "blwm", "mark", "mkmk"]),
           (["kern", "dist"], ["kern", "dist"])]


def gen_file(rng):
    stmts, uid, bid = [], 0, 0
    for _ in range(rng.randint(0, 8)):
        if rng.random() < 0.45:
            stmts.append(("user", uid)); uid += 1
        else:
            tag = rng.choice(["kern", "mark", "mkmk", "liga", "dist", "abvm"])
            items = []
            for _ in range(rng.randint(0, 5)):
                r = rng.random()
                if r < 0.55:
                    items.append(("it", uid)); uid += 1
                elif r < 0.75:
                    items.append(("cmt", uid)); uid += 1
                else:
                    items.append(("marker",))
            stmts.append(("block", bid, tag, items)); bid += 1
    return stmts


# ordinary comments, among them look-alikes of the insertion marker that are NOT markers (the marker is a comment that
# STARTS with "# Automatic Code"): a commented-out marker, a note that mentions it, a mis-cased one
CMT_SHAPES = ["# c%d", "## Automatic Code c%d", "# c%d", "# # Automatic Code c%d", "# c%d removed the # Automatic Code marker",
              "# automatic code c%d", "# c%d"]
import re as _re
MARKER_RE = _re.compile(r"\s*# Automatic Code")


def to_fea(stmts):
    out = []
    for s in stmts:
        if s[0] == "user":
            out.append("@U%d = [a];" % s[1])
        else:
            body = []
            for it in s[3]:
                if it[0] == "it":
                    body.append("    pos a a %d;" % it[1])
                elif it[0] == "cmt":
                    body.append("    " + CMT_SHAPES[it[1] % len(CMT_SHAPES)] % it[1])
                else:
                    body.append("    # Automatic Code")
            out.append("feature %s {\n%s\n} %s;" % (s[2], "\n".join(body), s[2]))
    return "\n".join(out) + "\n"


def g_stmts(stmts):
    def item(it):
        return {"it": "(It %d)", "cmt": "(Cmt %d)"}.get(it[0], "Marker") % it[1:] if it[0] != "marker" else "Marker"
    out = []
    for s in stmts:
        if s[0] == "user":
            out.append("(User %d)" % s[1])
        elif s[0] == "block":
            out.append("(Block %d %s %s)" % (s[1], G.s(s[2]), G.lst([item(i) for i in s[3]], "item")))
        elif s[0] == "gen":
            out.append("(Gen %s)" % G.s(s[1]))
        elif s[0] == "lookup":
            out.append("(GenLookup %d)" % s[1])
        elif s[0] == "def":
            out.append("(GenDef %d)" % s[1])
        else:
            out.append("GenBlank")
    return G.lst(out, "stmt")


def run_insert(stmts, tags, feats, nl, nd):
    from fontTools.feaLib.parser import Parser
    from fontTools.feaLib import ast
    from ufo2ft.featureWriters import BaseFeatureWriter

    class W(BaseFeatureWriter):
        tableTag = "GPOS"
        features = frozenset(tags)
    fea = Parser(io.StringIO(to_fea(stmts)), glyphNames=["a"]).parse()
    w = W()
    w.setContext(None, fea)
    todo = set(w.context.todo)
    gen_feats = [ast.FeatureBlock(t) for t in feats if t in todo]
    gen_ids = {id(x): x.name for x in gen_feats}
    lookups = [ast.LookupBlock("L%d" % i) for i in range(nl)]
    lk_ids = {id(x): i for i, x in enumerate(lookups)}
    defs = [ast.GlyphClassDefinition("D%d" % i, ast.GlyphClass([])) for i in range(nd)]
    df_ids = {id(x): i for i, x in enumerate(defs)}
    if gen_feats:
        w._insert(fea, classDefs=defs, lookups=lookups, features=gen_feats)
    out = []
    nb = 0
    for st in fea.statements:
        if id(st) in gen_ids:
            out.append(("gen", gen_ids[id(st)]))
        elif id(st) in lk_ids:
            out.append(("lookup", lk_ids[id(st)]))
        elif id(st) in df_ids:
            out.append(("def", df_ids[id(st)]))
        elif isinstance(st, ast.Comment) and st.text == "":
            out.append(("blank",))
        elif isinstance(st, ast.GlyphClassDefinition):
            out.append(("user", int(st.name[1:])))
        elif isinstance(st, ast.FeatureBlock):
            items = []
            for x in st.statements:
                if isinstance(x, ast.Comment):
                    items.append(("marker",) if MARKER_RE.match(x.text) else ("cmt", int(_re.search(r"c(\d+)", x.text).group(1))))
                else:
                    items.append(("it", int(x.valuerecord1.xAdvance)))
            out.append(("block", nb, st.name, items)); nb += 1
        else:
            out.append(("user", -1))
    return out, sorted(todo), bool(gen_feats)


def marker_order_level(ctx):
    """one writer generating TWO features (kern and dist: Latin plus Kannada kerning) with a marker in both hand-written blocks,
    the blocks in either order: the generated lookups must be defined before either feature references them -- the font
    compiles, and the kerning of both scripts is applied"""
    import ufo2ft
    from fontTools.ttLib import TTFont
    from harness.otl import Layout
    glyphs = [{"name": n, "unicodes": [u], "width": 500, "contours": [], "components": [], "anchors": []}
              for n, u in (("A", 0x41), ("V", 0x56), ("ka-kannada", 0xC95), ("ga-kannada", 0xC97))]
    kern_block = "feature kern {\n    pos A V -7;\n    # Automatic Code\n} kern;\n"
    dist_block = "feature dist {\n    # Automatic Code\n} dist;\n"
    head = "languagesystem DFLT dflt;\nlanguagesystem latn dflt;\nlanguagesystem knda dflt;\nlanguagesystem knd2 dflt;\n"
    variants = {"kern block first": head + kern_block + dist_block, "dist block first": head + dist_block + kern_block,
                "dist marker only": head + dist_block, "kern marker only": head + kern_block}
    for i, (vname, fea) in enumerate(variants.items()):
        for lib in ("ufoLib2", "defcon")[: 1 + (not ctx.quick())]:
            desc = {"glyphs": glyphs, "features": fea, "kerning": {("A", "V"): Fr(-50), ("ka-kannada", "ga-kannada"): Fr(-30)}}
            case = {"features": fea, "variant": vname, "lib": lib, "level": "markers in two blocks of one writer"}
            ctx.count(); ctx.klass("marker order: " + vname); ctx.nontriv(("mo", vname, lib))
            try:
                tt = ufo2ft.compileTTF(build_font(desc, lib), useProductionNames=False)
                b = io.BytesIO(); tt.save(b); lay = Layout(TTFont(io.BytesIO(b.getvalue())))
            except Exception as e:
                ctx.spec_failure(case, "the user's feature file with markers does not compile once the writers have run: %s: %s" % (type(e).__name__, str(e)[:300]))
                continue
            a = lay.pair_adjust(lay.lookups_for("latn", {"kern"}), "A", "V")
            k = lay.pair_adjust(lay.lookups_for("knd2", {"dist", "kern"}), "ka-kannada", "ga-kannada")
            if k[0] != -30 or a[0] not in (-50, -57, -7):
                ctx.spec_failure(dict(case, latin=a[:3], kannada=k[:3]), "generated kerning is not applied: A V %r, ka ga %r" % (a[:3], k[:3]))


def marker_section(ctx):
    """which comments count as the insertion marker: re.match(INSERT_FEATURE_MARKER, text) against Fea/Marker.v"""
    import re
    from ufo2ft.featureWriters.baseFeatureWriter import INSERT_FEATURE_MARKER
    rng = ctx.subrng("marker")
    PIECES = ["# Automatic Code", "#", " ", "\t", "# automatic code", "# Automatic Cod", "e", "x", "## Automatic Code", "\x0b", "\r",
              "# Automatic  Code", "Automatic Code", " # Automatic Code"]
    cases, meta = [], []
    for i in range(ctx.budget(200, 1500)):
        text = "".join(rng.choice(PIECES) for _ in range(rng.randint(1, 4)))
        if i < len(PIECES):
            text = PIECES[i]
        got = re.match(INSERT_FEATURE_MARKER, text) is not None
        ctx.count(); ctx.klass("marker text: %s" % ("marker" if got else "not a marker"))
        if "Automatic Code" in text and not got:
            ctx.nontriv(("mk", text))
        cases.append(G.tup(G.s(text), G.b(got)))
        meta.append({"comment": text, "implementation_says_marker": got})
    vals = ctx.coq_eval("From U2F Require Import Base.Prelude Fea.Marker.",
                        "fun c : (str * bool) => if Bool.eqb (is_marker (fst c)) (snd c) then 3 else 2", cases, chunk=400, tag="Marker")
    for v, case in zip(vals, meta):
        if v is not None and v != 3:
            ctx.corr_mismatch(case, "Gallina is_marker (Fea/Marker.v) differs from re.match(INSERT_FEATURE_MARKER, comment)")


def explore(ctx):
    marker_section(ctx)
    marker_order_level(ctx)
    rng = ctx.subrng("insert")
    cases, meta = [], []
    for i in range(ctx.budget(300, 3000)):
        stmts = gen_file(rng)
        tags, feats = rng.choice(TAGSETS)
        nl, nd = rng.randint(0, 3), rng.randint(0, 2)
        try:
            obs, todo, did = run_insert(stmts, tags, feats, nl, nd)
        except Exception as e:
            ctx.spec_failure({"feature_file": to_fea(stmts), "tags": tags}, "_insert raised %s: %s\n%s" % (type(e).__name__, e, traceback.format_exc()[-1000:]))
            continue
        if not did:
            # nothing to generate: the writer returns before _insert; the file must be untouched
            nl = nd = 0
        cases.append(G.tup(g_stmts(stmts), G.lst([G.s(t) for t in tags], "str"), G.lst([G.s(t) for t in feats], "str"),
                           G.nat(nl), G.nat(nd), g_stmts(obs)))
        meta.append({"feature_file": to_fea(stmts), "writer_features": feats, "todo": todo, "lookups": nl, "defs": nd, "result": obs})
        ctx.count()
        ctx.klass("insert:%s" % "+".join(feats))
        if any(s[0] == "block" and s[2] in tags and ("marker",) in s[3] for s in stmts):
            ctx.nontriv(to_fea(stmts) + repr((tags, nl, nd)))
    vals = ctx.coq_eval(IMPORTS, FN, cases, chunk=150, tag="Ins")
    for v, case in zip(vals, meta):
        if v is None:
            continue
        if not v & 2:
            ctx.spec_failure(case, "the user's statements after _insert are not the same sequence as before, or a feature the user "
                                   "wrote without the marker was generated again")
        elif not v & 1:
            ctx.corr_mismatch(case, "Gallina insert_all differs from BaseFeatureWriter._insert")
    if meta:
        ctx.sample(meta[0])
    compile_level(ctx)


USER_FEA = [
    "languagesystem DFLT dflt;\nlanguagesystem latn dflt;\n",
    "@lc = [a o];\n",
    "feature liga {\n    sub f i by f_i;\n} liga;\n",
    "feature salt {\n    sub a by a.alt;\n} salt;\n",
    "feature kern {\n    pos A V -33;\n} kern;\n",
    "feature kern {\n    # Automatic Code\n    pos A V -33;\n} kern;\n",
    "feature kern {\n    pos A V -33;\n    # Automatic Code\n} kern;\n",
    "feature kern {\n    pos A V -33;\n    # Automatic Code\n    pos V A -11;\n} kern;\n",
    "feature kern {\n    # Automatic Code\n} kern;\n",
    "feature kern {\n    # automatic code\n    pos A V -33;\n} kern;\n",
    "feature mark {\n    # Automatic Code\n} mark;\n",
    "feature kern {\n    ## Automatic Code\n    pos A V -33;\n} kern;\n",
    "feature kern {\n    pos A V -33;\n    # final values, removed the # Automatic Code marker\n} kern;\n",
    "lookup hand {\n    pos a o 5;\n} hand;\n",
]


def tables_level(ctx):
    """Fea/Tables.v against the code on generated feature files with several table blocks (head / hhea / GDEF in any number and
    order, each GDEF block with any of glyph classes, carets by position / by index, attachment points): ast.findTable, the
    GDEF writer's todo set (the user's table over ALL its blocks) and ast.getGDEFGlyphClasses (which definition is found)"""
    from fontTools.feaLib.parser import Parser
    from ufo2ft.featureWriters import GdefFeatureWriter
    from ufo2ft.featureWriters import ast as uast
    rng = ctx.subrng("tables")
    gnames = ["a", "b", "c", "d", "f_i", "acutecomb"]
    glyphs = [{"name": n, "unicodes": [0x61 + k] if n != "f_i" else [], "width": 500, "contours": [], "components": [],
               "anchors": [("caret_1", Fr(200), Fr(0))] if n == "f_i" else []} for k, n in enumerate(gnames)]
    cases, meta = [], []
    for i in range(ctx.budget(60, 300)):
        items, fea = [], ""
        nclass = 0
        for k in range(rng.randint(0, 5) if i % 10 else 0):
            kind = rng.choice(["GDEF", "GDEF", "GDEF", "head", "hhea", "other"])
            if kind == "other":
                fea += "@cls%d = [a b];\n" % k
                items.append("TOther")
            elif kind == "head":
                fea += "table head {\n    FontRevision 1.%d00;\n} head;\n" % (k + 1)
                items.append("(TBlock %s [])" % G.s("head"))
            elif kind == "hhea":
                fea += "table hhea {\n    CaretOffset %d;\n} hhea;\n" % k
                items.append("(TBlock %s [])" % G.s("hhea"))
            else:
                body, terms = "", []
                for st in rng.sample(["class", "pos", "index", "attach"], rng.randint(0, 3)):
                    if st == "class" and nclass < 4:
                        # (every definition names another base glyph: which one was found is visible in the result)
                        body += "    GlyphClassDef [%s], [f_i], [acutecomb], ;\n" % gnames[nclass]
                        terms.append("(TClassDef %d)" % nclass); nclass += 1
                    elif st == "pos":
                        body += "    LigatureCaretByPos f_i 222;\n"; terms.append("(TStmt GCaretByPos)")
                    elif st == "index":
                        body += "    LigatureCaretByIndex f_i 2;\n"; terms.append("(TStmt GCaretByIndex)")
                    elif st == "attach":
                        body += "    Attach a 1;\n"; terms.append("(TStmt GAttach)")
                fea += "table GDEF {\n" + body + "} GDEF;\n"
                items.append("(TBlock %s %s)" % (G.s("GDEF"), G.lst(terms, "tstmt")))
        has_cat, has_caret = i % 2 == 0, (i // 2) % 2 == 0
        desc = {"glyphs": [dict(g, anchors=g["anchors"] if has_caret else []) for g in glyphs], "features": fea,
                "lib": {"public.openTypeCategories": {"a": "base", "acutecomb": "mark", "f_i": "ligature"}} if has_cat else {}}
        case = {"features": fea, "has_categories": has_cat, "has_caret_anchors": has_caret}
        ctx.count(); ctx.klass("tables: %d GDEF block(s)" % min(fea.count("table GDEF"), 3))
        if fea.count("table GDEF") > 1:
            ctx.nontriv(("tables", i, ctx.scale))
        try:
            ff = Parser(io.StringIO(fea), glyphNames=gnames).parse()
            ft = {}
            for tag in ("GDEF", "head", "hhea"):
                tb = uast.findTable(ff, tag)
                ft[tag] = None if tb is None else [type(x).__name__ for x in tb.statements if not isinstance(x, uast.Comment)]
            gc = uast.getGDEFGlyphClasses(ff)
            found = None if gc.base is None else gnames.index(sorted(gc.base)[0])
            c = GdefFeatureWriter().setContext(build_font(desc), ff)
            todo = (1 if "GlyphClassDefs" in c.todo else 0) + (2 if "LigatureCarets" in c.todo else 0)
        except Exception as e:
            ctx.spec_failure(case, "raised %s: %s\n%s" % (type(e).__name__, e, traceback.format_exc()[-800:]))
            continue
        lens = "(%s, %s, %s)" % tuple(G.opt(None if ft[t] is None else G.z(len(ft[t])), "Z") for t in ("GDEF", "head", "hhea"))
        cases.append("(%s, (%s, %s), (%s, %s, %s))" % (G.lst(items, "top"), G.b(has_cat), G.b(has_caret), lens,
                                                       G.opt(None if found is None else G.z(found), "Z"), G.z(todo)))
        meta.append(dict(case, findTable=ft, glyph_class_def_found=found, todo_code=todo))
    vals = ctx.coq_eval(
        "From U2F Require Import Base.Prelude Fea.GdefTodo Fea.Tables.",
        "fun c : (list top * (bool * bool) * ((option Z * option Z * option Z) * option Z * Z)) => "
        "let '(l, (hc, hk), ((fg, fh, fa), found, todo)) := c in "
        "let len := fun t => option_map (fun b => Z.of_nat (length b)) (find_table t l) in "
        "let oz := fun a b => match a, b with Some x, Some y => Z.eqb x y | None, None => true | _, _ => false end in "
        "let has := fun t => option_map (fun _ => 1%Z) (find_table t l) in "
        "if oz (len GDEF) fg && oz (has [104;101;97;100]%Z) (option_map (fun _ => 1%Z) fh) && oz (has [104;104;101;97]%Z) (option_map (fun _ => 1%Z) fa) "
        "&& oz (gdef_classes l) found && Z.eqb (todo_code (gdef_todo_of (user_gdef l) hc hk)) todo then 3 else 2",
        cases, chunk=100, tag="Tables")
    for v, case in zip(vals, meta):
        if v is not None and v != 3:
            ctx.corr_mismatch(case, "Gallina find_table / gdef_classes / gdef_todo_of (user_gdef ...) (Fea/Tables.v) differ from "
                                    "findTable / getGDEFGlyphClasses / GdefFeatureWriter.setContext")


def context_split_section(ctx):
    """a hand-written kern feature with the marker IN THE MIDDLE whose rules stand under script / language / lookupflag statements
    (and useExtension): the generated rules are spliced in at the marker, and the user's rules BEFORE and AFTER it apply to exactly
    the language systems, with exactly the values, they apply to when no writer runs (judged on the compiled GPOS, per language
    system, through harness/otl.Layout)"""
    import ufo2ft
    from fontTools.ttLib import TTFont
    from harness.otl import Layout
    glyphs = [{"name": n, "unicodes": [u], "width": 500, "contours": [[(Fr(0), Fr(0), "line"), (Fr(50), Fr(0), "line"), (Fr(50), Fr(50), "line")]], "anchors": []}
              for n, u in (("A", 0x41), ("V", 0x56), ("T", 0x54), ("o", 0x6F), ("acutecomb", 0x301))]
    VARIANTS = [
        ("language", "", "    script latn;\n    language TRK exclude_dflt;\n"),
        ("script only", "", "    script latn;\n"),
        ("lookupflag", "", "    lookupflag IgnoreMarks;\n"),
        ("script + language + lookupflag", "", "    script latn;\n    language TRK;\n    lookupflag IgnoreMarks;\n"),
        ("useExtension", " useExtension", "    script latn;\n    language TRK exclude_dflt;\n"),
        ("context set twice", "", "    script latn;\n    language TRK exclude_dflt;\n    pos T o -5;\n    script DFLT;\n"),
        # (a script statement ends the lookup flag in effect: the rules after it -- and after the marker -- ignore nothing)
        ("lookupflag, then a script statement", "", "    lookupflag IgnoreMarks;\n    pos o T -5;\n    script latn;\n"),
        ("lookupflag, script, language", "", "    lookupflag IgnoreMarks;\n    pos o T -5;\n    script latn;\n    language TRK;\n"),
    ]
    for i in range(ctx.budget(len(VARIANTS), 2 * len(VARIANTS))):
        label, ext, ctxt = VARIANTS[i % len(VARIANTS)]
        lib = ["ufoLib2", "defcon"][(i // len(VARIANTS)) % 2]
        fea = ("languagesystem DFLT dflt;\nlanguagesystem latn dflt;\nlanguagesystem latn TRK;\n"
               "feature kern%s {\n%s    pos A V -10;\n    # Automatic Code\n    pos V A -20;\n} kern;\n" % (ext, ctxt))
        desc = {"glyphs": glyphs, "features": fea, "kerning": {("T", "o"): Fr(-30)},
                "lib": {"public.openTypeCategories": {"acutecomb": "mark", "A": "base", "V": "base", "T": "base", "o": "base"}}}
        case = {"features": fea, "variant": label, "lib": lib}
        ctx.count(); ctx.klass("marker in the middle under %s" % label); ctx.nontriv(("ctxsplit", i, ctx.scale))
        try:
            lays = []
            for writers in (None, []):
                kw = {} if writers is None else {"featureWriters": writers}
                tt = ufo2ft.compileTTF(build_font(desc, lib), useProductionNames=False, **kw)
                b = io.BytesIO(); tt.save(b); lays.append(Layout(TTFont(io.BytesIO(b.getvalue()))))
        except Exception as e:
            ctx.spec_failure(case, "compile raised %s: %s\n%s" % (type(e).__name__, e, traceback.format_exc()[-800:]))
            continue
        with_w, without = lays
        for tag, lang in (("DFLT", "dflt"), ("latn", "dflt"), ("latn", "TRK ")):
            # (a language system the user's feature does not name has no record of its own without the writers and falls back
            # to the script's default one; the generated kern block names every declared language, which ends that fallback
            # -- not what this section is about: only language systems with a record in BOTH fonts are compared)
            if lang != "dflt" and not (lang in with_w.scripts().get(tag, {}) and lang in without.scripts().get(tag, {})):
                continue
            for a, b_ in (("A", "V"), ("V", "A")):
                v1 = with_w.pair_adjust(with_w.lookups_for(tag, {"kern"}, lang=lang), a, b_)[0]
                v0 = without.pair_adjust(without.lookups_for(tag, {"kern"}, lang=lang), a, b_)[0]
                if v1 != v0:
                    ctx.spec_failure(dict(case, script=tag, language=lang, pair=[a, b_]),
                                     "the user's rule for (%s, %s) gives %r under %s/%s with the automatic writers and %r without them" % (a, b_, v1, tag, lang.strip(), v0))
                # ... under the same lookup flag (which glyphs the rule skips over)
                def flags(lay):
                    return sorted({lay.subtables(li)[0].LookupFlag for li in lay.lookups_for(tag, {"kern"}, lang=lang) if lay.pair_adjust([li], a, b_)[0]})
                if v0 and flags(with_w) != flags(without):
                    ctx.spec_failure(dict(case, script=tag, language=lang, pair=[a, b_]),
                                     "the user's rule for (%s, %s) under %s/%s sits in a lookup with flag(s) %r with the automatic writers and %r without them" % (
                                         a, b_, tag, lang.strip(), flags(with_w), flags(without)))
        if with_w.pair_adjust(with_w.lookups_for("latn", {"kern"}), "T", "o")[0] != (-30 if "twice" not in label else -30):
            ctx.spec_failure(case, "the generated kerning (T, o) = -30 is not applied under latn")


def variable_user_anchor_section(ctx):
    """a hand-written mark feature that uses the VARIABLE anchor syntax, in a variable font whose other features are generated
    (kerning: the kern writer compiles a temporary GSUB from the feature file on the way).  The user's statement survives: at
    every master's location the mark attaches where the user's anchor says for that location -- as it does when no writer runs"""
    import ufo2ft
    from harness import dsgen
    from fontTools.ttLib import TTFont
    from fontTools.varLib import instancer
    from harness.otl import Layout
    rng = ctx.subrng("variable-user-anchor")
    tri = [[(Fr(0), Fr(0), "line"), (Fr(50), Fr(0), "line"), (Fr(50), Fr(50), "line")]]
    FEA = ("languagesystem DFLT dflt;\nlanguagesystem latn dflt;\n"
           "markClass acutecomb <anchor (wght=100:110 wght=900:150) 480> @TOP_MARKS;\n"
           "feature mark {\n    pos base a <anchor (wght=100:250 wght=900:310) (wght=100:520 wght=900:560)> mark @TOP_MARKS;\n"
           "    pos base b <anchor 260 (wght=100:700 wght=900:730)> mark @TOP_MARKS;\n} mark;\n")
    for i in range(ctx.budget(4, 8)):
        lib = ["ufoLib2", "defcon"][i % 2]
        fn = ["compileVariableTTF", "compileVariableCFF2"][(i // 2) % 2]
        def master(k):
            return {"glyphs": [{"name": n, "unicodes": [u], "width": Fr(w + 20 * k), "contours": tri, "components": [], "anchors": []}
                               for n, u, w in (("a", 0x61, 500), ("b", 0x62, 520), ("acutecomb", 0x301, 0))],
                    "glyphOrder": ["a", "b", "acutecomb"], "kerning": {("a", "b"): Fr(-20 - 10 * k)}, "groups": {}, "features": FEA,
                    "lib": {"public.openTypeCategories": {"a": "base", "b": "base", "acutecomb": "mark"}},
                    "info": {"familyName": "Fam", "styleName": "M%d" % k, "unitsPerEm": 1000, "ascender": 800, "descender": -200}}
        masters = [master(0), master(1)]
        case = {"function": fn, "lib": lib, "features": FEA}
        ctx.count(); ctx.klass("variable anchors in a hand-written mark feature: %s" % fn); ctx.nontriv(("vua", i, ctx.scale))
        res = {}
        try:
            for writers in ("default", "none"):
                ds, fonts = dsgen.make_designspace(rng, masters, lib, instances=False)
                if writers == "none":
                    for f in fonts:
                        f.lib["com.github.googlei18n.ufo2ft.featureWriters"] = []
                vf = getattr(ufo2ft, fn)(ds, useProductionNames=False)
                b = io.BytesIO(); vf.save(b)
                for wght in (100, 900):
                    inst = instancer.instantiateVariableFont(TTFont(io.BytesIO(b.getvalue())), {"wght": wght})
                    b2 = io.BytesIO(); inst.save(b2); lay = Layout(TTFont(io.BytesIO(b2.getvalue())))
                    lk = lay.lookups_for("latn", {"mark"})
                    res[(writers, wght)] = [tuple((lay.mark_attach(lk, base, "acutecomb") or (None, None))[:2]) for base in ("a", "b")]
        except Exception as e:
            ctx.spec_failure(case, "%s raised %s: %s\n%s" % (fn, type(e).__name__, e, traceback.format_exc()[-1000:]))
            continue
        want = {100: [(250 - 110, 520 - 480), (260 - 110, 700 - 480)], 900: [(310 - 150, 560 - 480), (260 - 150, 730 - 480)]}
        for wght in (100, 900):
            for writers in ("default", "none"):
                if res[(writers, wght)] != want[wght]:
                    ctx.spec_failure(dict(case, writers=writers, wght=wght, attachments=jsonable(res[(writers, wght)])),
                                     "at wght=%d (%s writers) acutecomb attaches to a, b by %r; the user's variable anchors say %r" % (
                                         wght, writers, res[(writers, wght)], want[wght]))


def context_level(ctx):
    """BaseFeatureWriter._contextAt (the statements that re-create the script / language / lookupflag context in effect after a
    list of statements) against Fea/Context.v on random statement lists"""
    from fontTools.feaLib import ast
    from ufo2ft.featureWriters import BaseFeatureWriter
    rng = ctx.subrng("context")
    SCRIPTS, LANGS, FLAGS = ["latn", "grek", "DFLT"], ["dflt", "TRK ", "NLD "], [0, 8, 1, 9]

    def mk(stmts):
        out = []
        for kind, v in stmts:
            if kind == "script":
                out.append(ast.ScriptStatement(SCRIPTS[v]))
            elif kind == "language":
                out.append(ast.LanguageStatement(LANGS[v]))
            elif kind == "flag":
                out.append(ast.LookupFlagStatement(FLAGS[v]))
            else:
                out.append(ast.Comment("# rule %d" % v))
        return out

    def g_stmts(stmts):
        return G.lst(["(%s %s)" % ({"script": "SScript", "language": "SLanguage", "flag": "SFlag", "rule": "SRule"}[k], G.z(v)) for k, v in stmts], "cstmt")

    def back(sts):
        out = []
        for st in sts:
            if isinstance(st, ast.ScriptStatement):
                out.append(("script", SCRIPTS.index(st.script)))
            elif isinstance(st, ast.LanguageStatement):
                out.append(("language", LANGS.index(st.language)))
            elif isinstance(st, ast.LookupFlagStatement):
                out.append(("flag", FLAGS.index(st.value)))
            else:
                out.append(("rule", -1))
        return out
    cases, meta = [], []
    for i in range(ctx.budget(200, 1500)):
        n = rng.randint(0, 8)
        stmts = []
        for k in range(n):
            kind = rng.choice(["script", "language", "flag", "rule", "rule"])
            stmts.append((kind, rng.randrange(3) if kind in ("script", "language") else rng.randrange(4) if kind == "flag" else 100 + k))
        try:
            got = back(BaseFeatureWriter._contextAt(mk(stmts)))
        except Exception as e:
            ctx.spec_failure({"statements": stmts}, "_contextAt raised %s: %s" % (type(e).__name__, e))
            continue
        ctx.count(); ctx.klass("context: %d statements" % n)
        if any(k != "rule" for k, _ in stmts):
            ctx.nontriv(("ctx", i, ctx.scale))
        cases.append(G.tup(g_stmts(stmts), g_stmts(got)))
        meta.append({"statements": stmts, "_contextAt": got})
    vals = ctx.coq_eval("From U2F Require Import Base.Prelude Fea.Context.",
                        "fun c : (list cstmt * list cstmt) => if list_eqb cstmt_eqb (context_at (fst c)) (snd c) then 3 else 2",
                        cases, chunk=150, tag="Context")
    for v, case in zip(vals, meta):
        if v is not None and v != 3:
            ctx.corr_mismatch(case, "Gallina context_at (Fea/Context.v) differs from BaseFeatureWriter._contextAt")


def handwritten_features_section(ctx):
    """for EVERY feature the default writers can generate (kern, mark, mkmk, curs) on a font that gives each of them work: a
    hand-written block of that feature without the marker (or with a mis-cased one) stays the only block of that feature and
    keeps exactly its statements; with the marker the generated rules are added; the other features are generated as usual"""
    import ufo2ft
    from fontTools.feaLib.parser import Parser
    from fontTools.feaLib import ast
    glyphs = [{"name": n, "unicodes": [u], "width": 500, "contours": [],
               "anchors": [("top", Fr(250), Fr(600)), ("entry", Fr(0), Fr(0)), ("exit", Fr(500), Fr(0))]}
              for n, u in (("a", 0x61), ("o", 0x6F), ("A", 0x41), ("V", 0x56))]
    glyphs += [{"name": "acutecomb", "unicodes": [0x301], "width": 0, "contours": [], "anchors": [("_top", Fr(0), Fr(500)), ("top", Fr(0), Fr(700))]},
               {"name": "gravecomb", "unicodes": [0x300], "width": 0, "contours": [], "anchors": [("_top", Fr(0), Fr(500)), ("top", Fr(0), Fr(700))]}]
    gn = [g["name"] for g in glyphs]
    TAGS = ["kern", "mark", "mkmk", "curs"]
    # ("nested": the comment stands inside a named lookup block of the feature, not directly in the feature block -- markers are
    # honoured "only in top-level feature blocks", so this feature counts as hand-written without a marker)
    MARKERS = [("none", ""), ("marker", "    # Automatic Code\n"), ("mis-cased", "    # automatic code\n"), ("marker-after", None), ("nested", "nested")]
    for i in range(ctx.budget(len(TAGS) * len(MARKERS), 2 * len(TAGS) * len(MARKERS))):
        tag = TAGS[i % len(TAGS)]
        mk, mtxt = MARKERS[(i // len(TAGS)) % len(MARKERS)]
        lib = ["ufoLib2", "defcon"][(i // (len(TAGS) * len(MARKERS))) % 2]
        body = "    pos a o -7;\n"
        block = "feature %s {\n%s} %s;\n" % (tag, (body + "    # Automatic Code\n") if mtxt is None else (mtxt + body), tag)
        if mk == "nested":
            block = "feature %s {\n    lookup manual_%s {\n        pos a o -7;\n        # Automatic Code\n    } manual_%s;\n} %s;\n" % (tag, tag, tag, tag)
        fea = "languagesystem DFLT dflt;\nlanguagesystem latn dflt;\n" + block
        desc = {"glyphs": glyphs, "features": fea, "kerning": {("A", "V"): Fr(-50)},
                "lib": {"public.openTypeCategories": {"acutecomb": "mark", "gravecomb": "mark", "a": "base", "o": "base", "A": "base", "V": "base"}}}
        case = {"features": fea, "hand_written_feature": tag, "marker": mk, "lib": lib}
        ctx.count(); ctx.klass("hand-written %s / %s" % (tag, mk)); ctx.nontriv(("hw", i, ctx.scale))
        try:
            dbg = io.StringIO()
            ufo2ft.compileTTF(build_font(desc, lib), useProductionNames=False, debugFeatureFile=dbg)
            final = Parser(io.StringIO(dbg.getvalue()), glyphNames=gn).parse()
        except Exception as e:
            ctx.spec_failure(case, "compile raised %s: %s\n%s" % (type(e).__name__, e, traceback.format_exc()[-800:]))
            continue
        blocks = {}
        for st in final.statements:
            if isinstance(st, ast.FeatureBlock):
                blocks.setdefault(st.name, []).append([x.asFea() for x in st.statements if not isinstance(x, ast.Comment)])
        mine = blocks.get(tag, [])
        has_marker = mk in ("marker", "marker-after")
        if mk == "nested":
            if len(mine) != 1 or len(mine[0]) != 1 or not mine[0][0].startswith("lookup manual_%s" % tag) or "pos a o -7;" not in mine[0][0]:
                ctx.spec_failure(dict(case, blocks=mine), "the hand-written %s feature (a comment inside its nested lookup is not a marker) was duplicated, "
                                                          "added to or lost its rule: %r" % (tag, mine))
        elif not has_marker:
            if len(mine) != 1 or mine[0] != ["pos a o -7;"]:
                ctx.spec_failure(dict(case, blocks=mine), "the hand-written %s feature (no marker) was duplicated or added to: %r" % (tag, mine))
        else:
            if not any("lookup " in x for b in mine for x in b):
                ctx.spec_failure(dict(case, blocks=mine), "the %s feature carries the marker but nothing was generated for it: %r" % (tag, mine))
            if not any(b == ["pos a o -7;"] or "pos a o -7;" in b for b in mine):
                ctx.spec_failure(dict(case, blocks=mine), "the hand-written %s rule is gone: %r" % (tag, mine))
            # ... AT the marker: generated rules before the hand-written one when the marker stands above it, after it when below
            seq = [x for b in mine for x in b]
            hand = [k for k, x in enumerate(seq) if x == "pos a o -7;"]
            auto = [k for k, x in enumerate(seq) if x.startswith("lookup ")]
            if hand and auto:
                if mk == "marker" and not max(auto) < hand[0]:
                    ctx.spec_failure(dict(case, statements=seq), "the marker stands ABOVE the hand-written %s rule but generated rules come after it: %r" % (tag, seq))
                if mk == "marker-after" and not hand[0] < min(auto):
                    ctx.spec_failure(dict(case, statements=seq), "the marker stands BELOW the hand-written %s rule but generated rules come before it: %r" % (tag, seq))
        for other in TAGS:
            if other != tag and not any("lookup " in x for b in blocks.get(other, []) for x in b):
                ctx.spec_failure(dict(case, blocks=blocks.get(other)), "feature %s was not generated although the user wrote only %s" % (other, tag))


def gdef_todo_level(ctx):
    """GdefFeatureWriter.setContext: what is left to generate given the user's GDEF table, against Fea/GdefTodo.v"""
    import itertools
    from fontTools.feaLib.parser import Parser
    from ufo2ft.featureWriters import GdefFeatureWriter
    PARTS = {"GClassDef": "    GlyphClassDef [a], [f_i], [acutecomb], ;\n", "GCaretByPos": "    LigatureCaretByPos f_i 222;\n",
             "GCaretByIndex": "    LigatureCaretByIndex f_i 2;\n", "GAttach": "    Attach a 1;\n"}
    cases, meta = [], []
    combos = [None, ()] + [c for r in (1, 2, 3) for c in itertools.combinations(PARTS, r)]
    for user, before in [(u, b) for u in combos for b in ("", "table head {\n    FontRevision 1.100;\n} head;\n")]:
        for has_cat in (False, True):
            for has_caret in (False, True):
                glyphs = [{"name": "a", "unicodes": [0x61], "width": 500, "contours": [], "anchors": []},
                          {"name": "acutecomb", "unicodes": [0x301], "width": 0, "contours": [], "anchors": []},
                          {"name": "f_i", "unicodes": [], "width": 600, "anchors": [("caret_1", Fr(260), Fr(0))] if has_caret else [],
                           "contours": [[(Fr(0), Fr(0), "line"), (Fr(480), Fr(0), "line"), (Fr(480), Fr(500), "line"), (Fr(0), Fr(500), "line")]]}]
                fea = "" if user is None else "table GDEF {\n" + "".join(PARTS[k] for k in user) + "} GDEF;\n"
                if user == ():
                    fea = "table GDEF {\n} GDEF;\n"
                fea = before + fea          # (another table block first: the user's GDEF is found wherever it stands)
                desc = {"glyphs": glyphs, "features": fea,
                        "lib": {"public.openTypeCategories": {"a": "base", "acutecomb": "mark", "f_i": "ligature"}} if has_cat else {}}
                case = {"user_GDEF": None if user is None else list(user), "has_categories": has_cat, "has_caret_anchors": has_caret,
                        "features": fea}
                ctx.count(); ctx.klass("gdef-todo")
                try:
                    font = build_font(desc)
                    ff = Parser(io.StringIO(fea), glyphNames=[g["name"] for g in glyphs]).parse()
                    w = GdefFeatureWriter()
                    c = w.setContext(font, ff)
                    obs = (1 if "GlyphClassDefs" in c.todo else 0) + (2 if "LigatureCarets" in c.todo else 0)
                except Exception as e:
                    ctx.spec_failure(case, "GdefFeatureWriter.setContext raised %s: %s" % (type(e).__name__, e))
                    continue
                g_user = "(@None (list gdef_stmt))" if user is None else "(Some %s)" % G.lst(list(user), "gdef_stmt")
                cases.append(G.tup(G.tup(g_user, G.tup(G.b(has_cat), G.b(has_caret))), G.z(obs)))
                meta.append(dict(case, todo_code=obs))
    vals = ctx.coq_eval("From U2F Require Import Base.Prelude Fea.GdefTodo.",
                        "fun c : ((option (list gdef_stmt) * (bool * bool)) * Z) => if Z.eqb (todo_code (gdef_todo_of (fst (fst c)) "
                        "(fst (snd (fst c))) (snd (snd (fst c))))) (snd c) then 3 else 2", cases, chunk=200, tag="GdefTodo")
    for v, case in zip(vals, meta):
        if v is not None and v != 3:
            ctx.corr_mismatch(case, "Gallina gdef_todo_of differs from GdefFeatureWriter.setContext's todo set")


def indic_level(ctx):
    """a hand-written feature WITHOUT the marker is left alone also for the Indic mark features: a user abvm (or blwm, mark,
    mkmk) block is not duplicated, the ones the user did not write are generated"""
    import ufo2ft
    from fontTools.feaLib.parser import Parser
    from fontTools.feaLib import ast
    rng = ctx.subrng("indic")
    glyphs = [
        {"name": "ka-kannada", "unicodes": [0xC95], "width": 600, "anchors": [("top", Fr(290), Fr(550)), ("bottom", Fr(290), Fr(0))]},
        {"name": "ga-kannada", "unicodes": [0xC97], "width": 600, "anchors": [("top", Fr(300), Fr(560)), ("bottom", Fr(280), Fr(-5))]},
        {"name": "candrabindu-kannada", "unicodes": [0xC81], "width": 0, "anchors": [("_top", Fr(0), Fr(547)), ("top", Fr(0), Fr(700))]},
        {"name": "nukta-kannada", "unicodes": [0xCBC], "width": 0, "anchors": [("_bottom", Fr(0), Fr(0)), ("bottom", Fr(0), Fr(-150))]},
        {"name": "a", "unicodes": [0x61], "width": 500, "anchors": [("top", Fr(250), Fr(500))]},
        {"name": "acutecomb", "unicodes": [0x301], "width": 0, "anchors": [("_top", Fr(0), Fr(480))]},
    ]
    for g in glyphs:
        g["contours"] = []
    gn = [g["name"] for g in glyphs]
    head = "languagesystem DFLT dflt;\nlanguagesystem knda dflt;\nlanguagesystem knd2 dflt;\nlanguagesystem latn dflt;\n"
    head += "markClass candrabindu-kannada <anchor 0 500> @MY_TOP;\nmarkClass nukta-kannada <anchor 0 0> @MY_BOT;\n"
    hand = {"abvm": "feature abvm {\n    pos base ka-kannada <anchor 300 600> mark @MY_TOP;\n} abvm;\n",
            "blwm": "feature blwm {\n    pos base ka-kannada <anchor 300 -10> mark @MY_BOT;\n} blwm;\n",
            "mark": "feature mark {\n    pos base a <anchor 250 510> mark @MY_TOP;\n} mark;\n",
            "mkmk": "feature mkmk {\n    pos mark candrabindu-kannada <anchor 0 710> mark @MY_TOP;\n} mkmk;\n"}
    combos = [("abvm",), ("blwm",), ("mark",), ("mkmk",), ("abvm", "mark"), ("blwm", "mkmk"), (), ("abvm", "blwm")]
    for i in range(ctx.budget(8, 16)):
        written = combos[i % len(combos)]
        fea = head + "".join(hand[t] for t in written)
        desc = {"glyphs": glyphs, "features": fea, "kerning": {}}
        case = {"features": fea, "hand_written": list(written), "level": "Indic mark features"}
        ctx.count(); ctx.klass("indic: user wrote " + ("+".join(written) or "nothing")); ctx.nontriv(("indic", i, ctx.scale))
        try:
            dbg = io.StringIO()
            ufo2ft.compileTTF(build_font(desc, ["ufoLib2", "defcon"][i % 2]), useProductionNames=False, debugFeatureFile=dbg)
        except Exception as e:
            ctx.spec_failure(case, "compile raised %s: %s\n%s" % (type(e).__name__, e, traceback.format_exc()[-1000:]))
            continue
        final = Parser(io.StringIO(dbg.getvalue()), glyphNames=gn).parse()
        counts = {}
        for st in final.statements:
            if isinstance(st, ast.FeatureBlock):
                counts[st.name] = counts.get(st.name, 0) + 1
        for t in ("abvm", "blwm", "mark", "mkmk"):
            if t in written and counts.get(t, 0) != 1:
                ctx.spec_failure(dict(case, feature=t, blocks=counts), "the user's %s feature (no marker) was duplicated: %d blocks in the compiled source" % (t, counts.get(t, 0)))
            if t not in written and counts.get(t, 0) > 1:
                ctx.spec_failure(dict(case, feature=t, blocks=counts), "%s was generated %d times" % (t, counts.get(t, 0)))


def compile_level(ctx):
    import ufo2ft
    from fontTools.ttLib import TTFont
    from fontTools.feaLib.parser import Parser
    from fontTools.feaLib import ast
    rng = ctx.subrng("compile")
    names = [("A", 0x41), ("V", 0x56), ("a", 0x61), ("o", 0x6F), ("f", 0x66), ("i", 0x69), ("f_i", None), ("a.alt", None),
             ("acutecomb", 0x301)]
    for i in range(ctx.budget(25, 150)):
        parts = [USER_FEA[0]] if rng.random() < 0.7 else []
        parts += rng.sample(USER_FEA[1:4] + [USER_FEA[10], USER_FEA[13]], rng.randint(0, 4))
        kern_variant = rng.choice([None] + USER_FEA[4:10] + USER_FEA[11:13])
        if kern_variant:
            parts.insert(rng.randint(0, len(parts)), kern_variant)
        # a hand-written GDEF table: glyph classes, ligature carets by position or by contour point, or both
        GDEF_PARTS = {"classes": "    GlyphClassDef [A V a o f i a.alt], [f_i], [acutecomb], ;\n",
                      "caret-pos": "    LigatureCaretByPos f_i 222;\n", "caret-index": "    LigatureCaretByIndex f_i 2;\n"}
        gdef_variant = [None, ("classes",), ("caret-pos",), ("caret-index",), ("classes", "caret-index"), None][i % 6]
        if gdef_variant:
            if (i // 6) % 2 == 0:
                # other hand-written table blocks before the GDEF one
                parts.append(["table head {\n    FontRevision 1.100;\n} head;\n", "table hhea {\n    CaretOffset 0;\n} hhea;\ntable OS/2 {\n    WeightClass 400;\n} OS/2;\n"][(i // 12) % 2])
                ctx.klass("user GDEF after other table blocks")
            parts.append("table GDEF {\n" + "".join(GDEF_PARTS[k] for k in gdef_variant) + "} GDEF;\n")
        fea = "".join(parts)
        glyphs = [{"name": n, "unicodes": [u] if u else [], "width": 0 if n == "acutecomb" else 500,
                   "contours": [[(Fr(0), Fr(0), "line"), (Fr(480), Fr(0), "line"), (Fr(480), Fr(500), "line"), (Fr(0), Fr(500), "line")]] if n == "f_i" else [],
                   "anchors": ([("top", Fr(250), Fr(600))] if n in ("a", "o", "A") else []) + ([("_top", Fr(0), Fr(500))] if n == "acutecomb" else [])
                              + ([("caret_1", Fr(260), Fr(0))] if n == "f_i" else [])}
                  for n, u in names]
        desc = {"glyphs": glyphs, "features": fea, "kerning": {("A", "V"): Fr(-50), ("V", "A"): Fr(-40), ("a", "o"): Fr(-10)}}
        case = {"features": fea}
        try:
            dbg = io.StringIO()
            t1 = ufo2ft.compileTTF(build_font(desc), useProductionNames=False, debugFeatureFile=dbg)
            t0 = ufo2ft.compileTTF(build_font(desc), useProductionNames=False, featureWriters=[])
        except Exception as e:
            ctx.spec_failure(case, "compile raised %s: %s\n%s" % (type(e).__name__, e, traceback.format_exc()[-1000:]))
            continue
        ctx.count(); ctx.klass("compile:" + ("kern-variant" if kern_variant else "no-user-kern"))
        ctx.nontriv(("c", fea))
        out = []
        for t in (t1, t0):
            b = io.BytesIO(); t.save(b); b.seek(0); out.append(TTFont(b))
        t1, t0 = out
        g1 = t1.reader["GSUB"] if "GSUB" in t1.reader else None
        g0 = t0.reader["GSUB"] if "GSUB" in t0.reader else None
        if g1 != g0:
            ctx.spec_failure(case, "GSUB differs with the automatic writers (%s) vs without (%s)" % (
                None if g1 is None else len(g1), None if g0 is None else len(g0)))
        # what the user wrote in GDEF is neither overwritten nor added to
        def gdef_view(tt):
            if "GDEF" not in tt:
                return {}, {}
            tb = tt["GDEF"].table
            carets = {}
            if tb.LigCaretList is not None:
                for gname, lg in zip(tb.LigCaretList.Coverage.glyphs, tb.LigCaretList.LigGlyph):
                    carets[gname] = [(getattr(c, "Format", None), getattr(c, "Coordinate", None), getattr(c, "CaretValuePoint", None)) for c in lg.CaretValue]
            return (dict(tb.GlyphClassDef.classDefs) if tb.GlyphClassDef is not None else {}), carets
        if gdef_variant:
            (c1, k1), (c0, k0) = gdef_view(t1), gdef_view(t0)
            ctx.klass("user GDEF: " + "+".join(gdef_variant))
            if any(k.startswith("caret") for k in gdef_variant) and k1 != k0:
                ctx.spec_failure(dict(case, with_writers=k1, user_only=k0), "the user's GDEF ligature carets were changed by the automatic writers")
            if "classes" in gdef_variant and c1 != c0:
                ctx.spec_failure(dict(case, with_writers=c1, user_only=c0), "the user's GDEF glyph classes were changed by the automatic writers")
        gn = [n for n, _ in names]
        user = Parser(io.StringIO(fea), glyphNames=gn).parse()
        final = Parser(io.StringIO(dbg.getvalue()), glyphNames=gn).parse()

        def flat(ff, top=True):
            res = []
            for st in ff.statements:
                if isinstance(st, ast.Comment):
                    continue
                if isinstance(st, (ast.FeatureBlock, ast.TableBlock)):
                    # (the GDEF writer may add the statements the user did not write to the user's own table block)
                    for x in st.statements:
                        if not isinstance(x, ast.Comment):
                            res.append((st.name, x.asFea()))
                else:
                    res.append(("", st.asFea()))
            return res
        u, f = flat(user), flat(final)
        # the user's statements must be a subsequence of the final file, in order
        it = iter(f)
        missing = [x for x in u if not any(y == x for y in it)]
        if missing:
            ctx.spec_failure(case, "user statements missing or reordered in the compiled feature source: %r" % (missing[:3],))
        # a hand-written kern feature without the (correctly cased) marker: nothing generated for kern
        user_kern = kern_variant is not None
        marker = user_kern and bool(_re.search(r"^\s*# Automatic Code", kern_variant, _re.M))
        gen_kern_lookups = [st for st in final.statements if isinstance(st, ast.LookupBlock) and st.name.startswith("kern_")]
        if user_kern and not marker and gen_kern_lookups:
            ctx.spec_failure(case, "kern was generated although the user wrote a kern feature without the marker")
        if (not user_kern or marker) and not gen_kern_lookups:
            ctx.spec_failure(case, "kern was not generated (marker present or no user kern feature)")
        if marker and "pos A V -33" in kern_variant:
            # position of the generated kern block relative to the hand-written rules
            blocks = [(k, st) for k, st in enumerate(final.statements) if isinstance(st, ast.FeatureBlock) and st.name == "kern"]
            texts = [" ".join(x.asFea() for x in st.statements if not isinstance(x, ast.Comment)) for _, st in blocks]
            hand = [k for k, tx in enumerate(texts) if "pos A V -33" in tx]
            auto = [k for k, tx in enumerate(texts) if "lookup kern_" in tx]
            after = [k for k, tx in enumerate(texts) if "pos V A -11" in tx]
            if not hand or not auto:
                ctx.spec_failure(case, "kern blocks after insertion: %r" % texts)
            else:
                top = kern_variant.index("# Automatic Code") < kern_variant.index("pos A V")
                if top and not auto[0] < hand[0]:
                    ctx.spec_failure(case, "marker at the top but generated kern comes after the hand-written rules")
                if not top and not auto[0] > hand[0]:
                    ctx.spec_failure(case, "marker below the hand-written rules but generated kern comes first")
                if after and not auto[0] < after[0]:
                    ctx.spec_failure(case, "marker in the middle but the rules after it precede the generated kern")
    indic_level(ctx)
    gdef_todo_level(ctx)
    tables_level(ctx)
    handwritten_features_section(ctx)
    context_split_section(ctx)
    variable_user_anchor_section(ctx)
    context_level(ctx)
    # GSUB writers run first
    from ufo2ft.featureCompiler import FeatureCompiler
    from ufo2ft.featureWriters import KernFeatureWriter, MarkFeatureWriter, BaseFeatureWriter

    class GsubW(BaseFeatureWriter):
        tableTag = "GSUB"
        features = frozenset(["salt"])

        def _write(self):
            return False
    class GsubW2(GsubW):
        features = frozenset(["ss01"])
    # every way of spelling the writer list: classes, instances, mixed, with the default-writers ellipsis, several GSUB
    # writers (their relative order is kept)
    spellings = {"classes": [KernFeatureWriter, GsubW, MarkFeatureWriter],
                 "instances": [KernFeatureWriter(), GsubW(), MarkFeatureWriter()],
                 "mixed": [KernFeatureWriter, MarkFeatureWriter(), GsubW(), GsubW2],
                 "ellipsis-instance": [..., GsubW()],
                 "ellipsis-class": [..., GsubW2, GsubW()],
                 "gsub-last-instance": [MarkFeatureWriter, KernFeatureWriter(), GsubW2(), GsubW()]}
    for how, writers in spellings.items():
        fc = FeatureCompiler(build_font({"glyphs": [{"name": "a", "width": 1}]}), featureWriters=writers)
        tagsq = [w.tableTag for w in fc.featureWriters]
        gs = [type(w).__name__ for w in fc.featureWriters if w.tableTag == "GSUB"]
        want = [(w if isinstance(w, type) else type(w)).__name__ for w in writers if w is not ... and (w if isinstance(w, type) else type(w)).tableTag == "GSUB"]
        ctx.count(); ctx.klass("writer list spelling: " + how)
        if tagsq != sorted(tagsq, key=lambda t: t != "GSUB") or gs != want:
            ctx.spec_failure({"writers_given": how, "order": [type(w).__name__ for w in fc.featureWriters]},
                             "GSUB writers are not placed (in their given order) before the others")
