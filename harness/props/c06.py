"""C06 -- generated mark features make matching anchors coincide."""
import io, re, traceback
from fractions import Fraction as Fr
from harness import gterm as G, geom
from harness.fonts import build_font, jsonable
from harness.otl import Layout

PID = "C06"
LEVEL_TEXT = ("Proof + correspondence (PARTIAL): Coq model of parseAnchorName (mark prefix, trailing digits with Python's rstrip "
              "character-set semantics, ligature numbers, contextual and ignorable names, the two ValueErrors) with characterisation "
              "theorems, compared with the real function on generated names; the property -- for every (base | ligature component "
              "| mark, mark) pair the attachment offset is base anchor minus mark anchor (each quantised then rounded) of one of "
              "the anchor classes the two glyphs share, and no attachment when they share none -- is an executable Coq predicate "
              "(spec_C06) evaluated with vm_compute on what an independent MarkBase/MarkLig/MarkMark interpreter reads from "
              "compiled fonts, for all glyph pairs, both grouping modes. The writer's mark-class construction "
              "(_makeMarkClassDefinitions / _defineMarkClass with its unique-name search) is transcribed (Mark/MarkClasses.v) and "
              "proved: for any classes the feature file already defines and any non-repeating naming scheme, all marks of an "
              "anchor are, each with its own anchor, in the one class recorded for that anchor (C06_marks_of_an_anchor_share_the_"
              "recorded_class; the pre-repair code F20 is refuted); compared exactly with the mark classes and class references "
              "of the compiled feature file for feature files that pre-define @MC_<anchor>, @MC_<anchor>_1, other classes, with "
              "current and stale anchors. The mark-class grouping is Mark/Color.v. Lookup assembly is not transcribed; contextual "
              "('*') anchors are excluded.")
LEVEL_NOTE = ("Trusted: Coq kernel, hand models, harness, our GPOS interpreter (last applicable lookup wins, lookup flags and mark "
              "filtering sets honoured), feaLib/otlLib compilation. When GDEF categories exclude a glyph the check accepts both "
              "attachment and none.")
TECHNIQUE = "Coq model of anchor-name parsing with theorems + Coq-evaluated attachment spec on an independent GPOS interpreter's reading of compiled fonts"
IMPORTS = "From U2F Require Import Base.Prelude Geometry.Model Kern.Model Mark.Model."
RULE = ("(a) anchor names built from {top,bottom,ogonek,top.alt,a1,x_y} with '_' prefixes, '_N' / 'N' / '_0' / '_11' suffixes, "
        "'*' prefixes, digits only, non-alphabetic first characters -> parseAnchorName vs the Gallina model. (b) fonts with 4-9 "
        "glyphs carrying plain / '_'-prefixed / numbered anchors (several per glyph, fractional and x.5 coordinates, a mark with "
        "both _top and _bottom, top vs top.alt, marks that are also bases, ligatures with gaps), quantisation {1,5,10}, "
        "groupMarkClasses on/off, GDEF via public.openTypeCategories or none, Latin/Devanagari code points (abvm/blwm); every "
        "(glyph, glyph) pair and ligature component is evaluated. Non-trivial = some pair has >= 1 candidate class."
        " A 12-component ligature (two-digit anchor numbers); Devanagari fonts that also hold anchored glyphs of an undeclared Indic script.")
ASSUMPTIONS = ["OpenType mark attachment semantics as implemented in harness/otl.py"]

FN_PARSE = ("fun c : (str * parse_res) => if parse_res_eqb (parse_anchor_name (fst c)) (snd c) then 3 else 2")
FN = ("fun c : (mark_in * list attach_obs) => if spec_C06 (fst c) (snd c) then 3 else 1")

STEMS = ["top", "bottom", "ogonek", "top.alt", "a1", "x_y", "top_", "t2p", "9top", ".x", "topright", "nukta"]
SUFF = ["", "", "", "_1", "_2", "_3", "1", "_0", "_11", "_12", "12", "_1_2"]


def gen_name(rng):
    s = rng.choice(STEMS)
    if rng.random() < 0.35:
        s = "_" + s
    s += rng.choice(SUFF)
    r = rng.random()
    if r < 0.08:
        s = "*" + s + rng.choice(["", ".foo", ".1"])
    elif r < 0.12:
        s = rng.choice(["_", "_1", "1", "__", "_12", "*", "*_"])
    return s


def impl_parse(name):
    from ufo2ft.featureWriters.markFeatureWriter import parseAnchorName
    try:
        isMark, key, number, ctxl, ign = parseAnchorName(name)
    except ValueError as e:
        return "P_mark_numbered" if "numbered" in str(e) else "P_nil_key"
    except IndexError:
        return "P_empty"
    return "(P_ok (mkParsed %s %s %s %s %s))" % (G.b(isMark), G.s(key), G.opt(None if number is None else G.z(number), "Z"),
                                                G.b(ctxl), G.b(bool(ign)))


BASES = [("a", 0x61), ("e", 0x65), ("o", 0x6F), ("ka-deva", 0x915), ("A", 0x41)]
MARKS = [("acutecomb", 0x301), ("gravecomb", 0x300), ("dotbelowcomb", 0x323), ("cedillacomb", 0x327), ("anusvara-deva", 0x902),
         ("nukta-deva", 0x93C)]
LIGAS = [("f_i", None), ("f_f_i", None), ("s_a_l_l_a_a_l_l_a_h_u_a", None)]     # 2, 3 and 12 components (two-digit anchor numbers)
KEYS = ["top", "bottom", "ogonek", "top.alt", "nukta"]


def coord(rng):
    return rng.choice([Fr(rng.randint(-200, 900)), Fr(rng.randint(-400, 1800), 2), Fr(rng.randint(-800, 3600), 4), Fr(123), Fr(5, 2)])


def gen_font(rng, modifier=False):
    glyphs = []
    # a font is either Indic (abvm/blwm) or not: the abvm/blwm lookups only admit glyphs classified into an Indic
    # script, so a script-inherited mark such as U+0327 is never attached to a Devanagari glyph (observation O2 in
    # DESIGN.md; outside the checked domain)
    indic = rng.random() < 0.25
    bases = [b for b in BASES if b[0].endswith("-deva")] if indic else [b for b in BASES if not b[0].endswith("-deva")]
    marks = [m for m in MARKS if m[0].endswith("-deva")] if indic else [m for m in MARKS if not m[0].endswith("-deva")]
    nb, nm = rng.randint(1, len(bases)), rng.randint(1, len(marks))
    nb, nm = min(nb, 3), min(nm, 4)
    for nmame, u in rng.sample(bases, nb):
        anchors = [(k, coord(rng), coord(rng)) for k in rng.sample(KEYS, rng.randint(0, 3))]
        if anchors and rng.random() < 0.1:
            anchors.append((anchors[0][0], coord(rng), coord(rng)))     # duplicate name
        if anchors and rng.random() < 0.3:
            # an anchor with an IDENTIFIER (any UFO 3 anchor may carry one) on a glyph whose lib has no public.objectLibs
            anchors[0] = anchors[0][:3] + ("ANCHOR-ID-%d" % len(glyphs),)
        glyphs.append({"name": nmame, "unicodes": [u], "width": 500, "anchors": anchors, "cat": "base"})
    for nmame, u in rng.sample(marks, nm):
        anchors = [("_" + k, coord(rng), coord(rng)) for k in rng.sample(KEYS, rng.randint(1, 2))]
        if rng.random() < 0.5:
            anchors += [(k, coord(rng), coord(rng)) for k in rng.sample(KEYS, rng.randint(1, 2))]   # mark-to-mark
        glyphs.append({"name": nmame, "unicodes": [u], "width": 0, "anchors": anchors, "cat": "mark"})
    script_groups = None
    features = None
    if indic and rng.random() < 0.5:
        # the feature file declares Devanagari only, the font also holds encoded, anchored Bengali glyphs: those are
        # outside the abvm/blwm set (their script is not declared) and must be served by mark/mkmk like any other glyph
        keys_b = rng.sample(KEYS, 2)
        glyphs.append({"name": "ka-beng", "unicodes": [0x995], "width": 500, "cat": "base",
                       "anchors": [(k, coord(rng), coord(rng)) for k in keys_b]})
        glyphs.append({"name": "ga-beng", "unicodes": [0x997], "width": 500, "cat": "base",
                       "anchors": [(keys_b[0], coord(rng), coord(rng))]})
        glyphs.append({"name": "candrabindu-beng", "unicodes": [0x981], "width": 0, "cat": "mark",
                       "anchors": [("_" + keys_b[0], coord(rng), coord(rng))]})
        script_groups = {g["name"]: ("beng" if g["name"].endswith("-beng") else "deva") for g in glyphs}
        features = "languagesystem DFLT dflt;\nlanguagesystem dev2 dflt;\nlanguagesystem deva dflt;\n"
    if rng.random() < 0.5 and not indic:
        nmame, _ = rng.choice(LIGAS)
        ncomp = nmame.count("_") + 1
        anchors = []
        for k in rng.sample(KEYS, rng.randint(1, 2)):
            for ci in range(1, ncomp + 1):
                if rng.random() < 0.8:
                    anchors.append(("%s_%d" % (k, ci), coord(rng), coord(rng)))
        free = [ci for ci in range(1, ncomp + 1) if not any(a[0].endswith("_%d" % ci) for a in anchors)]
        if free and rng.random() < 0.5:
            anchors.append(("_%d" % rng.choice(free), Fr(0), Fr(0)))     # explicit NULL component
        glyphs.append({"name": nmame, "unicodes": [], "width": 900, "anchors": anchors, "cat": "ligature"})
    if rng.random() < 0.2:
        glyphs.append({"name": "lonely", "unicodes": [], "width": 300, "anchors": [("_nomatch", coord(rng), coord(rng)), ("top", coord(rng), coord(rng))], "cat": "base"})
    if modifier:
        # a glyph categorised as BASE that also carries an attaching anchor matched elsewhere in the font (a spacing modifier
        # that can itself sit on a base): as a base it still takes the marks its own anchors ask for
        k0 = next(a[0][1:] for g in glyphs if g["cat"] == "mark" for a in g["anchors"] if a[0].startswith("_"))
        if not any(a[0] == k0 for g in glyphs if g["cat"] == "base" for a in g["anchors"]):
            next(g for g in glyphs if g["cat"] == "base")["anchors"].append((k0, coord(rng), coord(rng)))
        glyphs.append({"name": "modifier", "unicodes": [0x2C8], "width": 300, "cat": "base",
                       "anchors": [("_" + k0, coord(rng), coord(rng)), (k0, coord(rng), coord(rng)),
                                   (next(k for k in KEYS if k != k0), coord(rng), coord(rng))]})
    for g in glyphs:
        g["contours"] = []
    lib = {}
    if rng.random() < 0.4 or modifier:
        lib["public.openTypeCategories"] = {g["name"]: g["cat"] for g in glyphs}
    if features is None and not indic and rng.random() < 0.3:
        # the feature file already holds a markClass statement under the very name the writer generates (@MC_<key>), with an
        # anchor that is NOT the mark's current UFO anchor (a stale hand-written definition): the generated lookups must still
        # use the UFO anchors
        mk = [g for g in glyphs if g["cat"] == "mark" and any(a[0].startswith("_") and "." not in a[0] for a in g["anchors"])]
        if mk:
            g0 = mk[0]
            a0 = next(a for a in g0["anchors"] if a[0].startswith("_") and "." not in a[0])
            features = "languagesystem DFLT dflt;\nlanguagesystem latn dflt;\nmarkClass %s <anchor %d %d> @MC_%s;\n" % (
                g0["name"], int(a0[1]) + 100, int(a0[2]) - 37, a0[0][1:])
    return {"glyphs": glyphs, "lib": lib, "quantization": rng.choice([1, 1, 5, 10]), "group": rng.random() < 0.5,
            "script_groups": script_groups,
            "features": features if features is not None else
            ("languagesystem DFLT dflt;\nlanguagesystem latn dflt;\n" if rng.random() < 0.3 else "")}


def color_graph_section(ctx):
    """markFeatureWriter.colorGraph against Mark/Color.v on random conflict graphs, given as dicts in random insertion order
    with neighbour lists in random order"""
    from ufo2ft.featureWriters.markFeatureWriter import colorGraph
    rng = ctx.subrng("color")
    cases, meta = [], []
    for i in range(ctx.budget(200, 2000)):
        n = rng.randint(1, 8)
        nodes = ["MC_%s" % x for x in rng.sample(["top", "bottom", "ogonek", "ring", "horn", "cedilla", "nukta", "alt", "x", "top.alt"], n)]
        edges = set()
        style = rng.random()
        if style < 0.3 and n >= 3:
            order = list(nodes); rng.shuffle(order)
            edges = {frozenset(order[j:j + 2]) for j in range(len(order) - 1)}          # a chain
        else:
            for a in nodes:
                for b in nodes:
                    if a < b and rng.random() < 0.35:
                        edges.add(frozenset((a, b)))
        adj = {}
        keys = list(nodes); rng.shuffle(keys)
        for k in keys:
            nb = [x for x in nodes if frozenset((k, x)) in edges]
            rng.shuffle(nb)
            adj[k] = nb
        got = colorGraph(adj)
        g_adj = G.lst([G.tup(G.s(k), G.lst([G.s(x) for x in v], "str")) for k, v in adj.items()], "(str * list str)")
        cases.append(G.tup(g_adj, G.lst([G.lst([G.s(x) for x in grp], "str") for grp in got], "(list str)")))
        meta.append({"adjacency": {k: list(v) for k, v in adj.items()}, "colorGraph": [list(g) for g in got]})
        ctx.count(); ctx.klass("colorGraph:%d vertices" % n)
        if edges:
            ctx.nontriv(("color", tuple(sorted(tuple(sorted(e)) for e in edges))))
    vals = ctx.coq_eval("From U2F Require Import Base.Prelude Mark.Color.",
                        "fun c : (adjacency * list (list str)) => c06_color (fst c) (snd c)", cases, chunk=400, tag="Color")
    for v, case in zip(vals, meta):
        if v is None:
            continue
        if not v & 2:
            ctx.spec_failure(case, "colorGraph put two conflicting mark classes into one group, or lost / duplicated a class")
        elif not v & 1:
            ctx.corr_mismatch(case, "Gallina color_graph differs from markFeatureWriter.colorGraph")


def contextual_orphan_section(ctx):
    """a contextual anchor (*key, with a GPOS_Context entry in public.objectLibs) on a base / ligature / mark glyph whose key
    no MARK glyph of the font attaches to (the only glyph with the _key anchor is categorised as a base): the font must compile (fixed finding F25: KeyError) and the ordinary anchors must
    attach exactly as without the contextual anchor"""
    import ufo2ft
    from fontTools.ttLib import TTFont
    for i in range(ctx.budget(6, 18)):
        lib = ["ufoLib2", "defcon"][i % 2]
        where = ["base", "ligature", "mark"][i % 3]
        orphan = i % 2 == 0                       # the contextual key has no mark (orphan) / has one
        key = "ogonek" if orphan else "top"
        def glyphs(with_ctx):
            gl = [{"name": "a", "unicodes": [0x61], "width": 500, "contours": [], "components": [], "cat": "base",
                   "anchors": [("top", Fr(250), Fr(500)), ("bottom", Fr(250), Fr(0))]},
                  {"name": "f_i", "unicodes": [], "width": 600, "contours": [], "components": [], "cat": "ligature",
                   "anchors": [("top_1", Fr(150), Fr(700)), ("top_2", Fr(450), Fr(700))]},
                  {"name": "acutecomb", "unicodes": [0x301], "width": 0, "contours": [], "components": [], "cat": "mark",
                   "anchors": [("_top", Fr(0), Fr(480)), ("top", Fr(0), Fr(650))]},
                  {"name": "dotbelowcomb", "unicodes": [0x323], "width": 0, "contours": [], "components": [], "cat": "mark",
                   "anchors": [("_bottom", Fr(0), Fr(-20))]},
                  # the only glyph with an _ogonek anchor is NOT a mark by its category: the anchor name pairs up, but no
                  # mark class exists for it
                  {"name": "ogonek", "unicodes": [0x2DB], "width": 300, "contours": [], "components": [], "cat": "base",
                   "anchors": [("_ogonek", Fr(150), Fr(0))]}]
            if with_ctx:
                g = {"base": gl[0], "ligature": gl[1], "mark": gl[2]}[where]
                nm = "*" + key + ("_1" if where == "ligature" else "")
                g["anchors"] = g["anchors"] + [(nm, Fr(260), Fr(540), "CTX-1")]
                g["lib"] = {"public.objectLibs": {"CTX-1": {"GPOS_Context": "a *" if where != "base" else "f_i *"}}}
            return gl
        def build(with_ctx):
            gl = glyphs(with_ctx)
            desc = {"glyphs": gl, "features": "languagesystem DFLT dflt;\nlanguagesystem latn dflt;\n",
                    "lib": {"public.openTypeCategories": {g["name"]: g["cat"] for g in gl}}}
            tt = ufo2ft.compileTTF(build_font(desc, lib), useProductionNames=False)
            b = io.BytesIO(); tt.save(b); return Layout(TTFont(io.BytesIO(b.getvalue())))
        case = {"contextual_anchor_on": where, "key": key, "key_has_a_mark": not orphan, "lib": lib}
        ctx.count(); ctx.klass("contextual anchor on %s, %s" % (where, "no mark for its key" if orphan else "mark exists")); ctx.nontriv(("ctxo", i, ctx.scale))
        try:
            plain, withc = build(False), build(True)
        except Exception as e:
            ctx.spec_failure(case, "compile raised %s: %s\n%s" % (type(e).__name__, e, traceback.format_exc()[-1000:]))
            continue
        for base, mark, comp in (("a", "acutecomb", None), ("a", "dotbelowcomb", None), ("f_i", "acutecomb", 0), ("f_i", "acutecomb", 1),
                                 ("acutecomb", "acutecomb", None)):
            la = plain.lookups_for("DFLT", {"mark", "mkmk"}); lb = withc.lookups_for("DFLT", {"mark", "mkmk"})
            # only the non-contextual lookups: a mark attaches without context exactly as before
            a, b = plain.mark_attach(la, base, mark, comp), withc.mark_attach(lb, base, mark, comp)
            if a is None or (b is not None and a[:2] != b[:2] and orphan):
                ctx.spec_failure(dict(case, base=base, mark=mark, component=comp), "attachment %r without the contextual anchor, %r with it" % (a, b))


def variable_section(ctx):
    """the property on VARIABLE fonts: three masters on one axis whose base and mark anchors are not monotonic along the axis
    (two masters agree on a coordinate, the third differs -- in each of the three ways); compileVariableTTF / CFF2 with
    variable features and with per-master features; the font instantiated at every master's location must attach the mark
    where that master's anchors coincide"""
    import ufo2ft
    from fontTools.ttLib import TTFont
    from fontTools.varLib import instancer
    from harness import dsgen
    rng = ctx.subrng("variable-marks")
    for i in range(ctx.budget(6, 30)):
        lib = ["ufoLib2", "defcon"][i % 2]
        def master(k, agree):
            # agree: which two masters share the coordinates of 'top' on a / '_top' on the mark: (0,1), (0,2) or (1,2)
            v = [0, 0, 0]
            odd = ({0, 1, 2} - set(agree)).pop()
            v[odd] = 1
            dx = 20 * v[k]
            return {"glyphs": [
                {"name": "a", "unicodes": [0x61], "width": Fr(500 + 10 * k), "components": [], "contours": [[(Fr(0), Fr(0), "line"), (Fr(100 + 5 * k), Fr(0), "line"), (Fr(50), Fr(100), "line")]],
                 "anchors": [("top", Fr(250 + dx), Fr(500)), ("bottom", Fr(250), Fr(-10 * k))]},
                {"name": "f_i", "unicodes": [], "width": Fr(600), "components": [], "contours": [[(Fr(0), Fr(0), "line"), (Fr(90 + 5 * k), Fr(0), "line"), (Fr(50), Fr(100), "line")]],
                 "anchors": [("top_1", Fr(150), Fr(700 + dx)), ("top_2", Fr(450 + 7 * k), Fr(700))]},
                {"name": "acutecomb", "unicodes": [0x301], "width": Fr(0), "components": [], "contours": [[(Fr(0), Fr(500), "line"), (Fr(40 + k), Fr(500), "line"), (Fr(20), Fr(560), "line")]],
                 "anchors": [("_top", Fr(20), Fr(480 + dx)), ("top", Fr(20 + dx), Fr(650))]},
                {"name": "dotbelowcomb", "unicodes": [0x323], "width": Fr(0), "components": [], "contours": [[(Fr(0), Fr(-60), "line"), (Fr(40 + k), Fr(-60), "line"), (Fr(20), Fr(-20), "line")]],
                 "anchors": [("_bottom", Fr(20), Fr(-20 - dx))]}],
                "glyphOrder": ["a", "f_i", "acutecomb", "dotbelowcomb"], "kerning": {}, "groups": {},
                "features": "languagesystem DFLT dflt;\n",
                "lib": {"public.openTypeCategories": {"a": "base", "f_i": "ligature", "acutecomb": "mark", "dotbelowcomb": "mark"}},
                "info": {"familyName": "Fam", "styleName": "M%d" % k, "unitsPerEm": 1000, "ascender": 800, "descender": -200}}
        agree = [(0, 1), (0, 2), (1, 2)][i % 3]
        masters = [master(k, agree) for k in range(3)]
        # one family in three: a quantisation step of 5 and coordinates off the grid (each master's coordinate is rounded to the step)
        quant = 5 if i % 3 == 2 else 1
        if quant != 1:
            for k, m in enumerate(masters):
                for g in m["glyphs"]:
                    g["anchors"] = [(a[0], a[1] + [3, 2, -2][k], a[2] - [1, 3, 2][k]) for a in g["anchors"]]
        fn = ["compileVariableTTF", "compileVariableCFF2"][(i // 3) % 2]
        vfeat = i % 2 == 0 or i < 3
        # an axis <map> that is not the identity: the middle master sits at design 500, which is USER 400 (what fvar and
        # the instancer speak); every third family, always one with variable features
        mapped = i % 3 == 1
        case = {"function": fn, "variableFeatures": vfeat, "lib": lib, "masters_agreeing_on_the_varied_coordinates": list(agree),
                "axis_map": [(100, 100), (400, 500), (900, 900)] if mapped else None, "quantization": quant, "masters": [jsonable(m) for m in masters]}
        ctx.count(); ctx.klass("variable marks: masters %s agree/%s/vfeat=%s%s%s" % (agree, fn, vfeat, "/axis map" if mapped else "", "/quantization 5" if quant != 1 else "")); ctx.nontriv(("vm", i, ctx.scale))
        try:
            ds, fonts = dsgen.make_designspace(rng, masters, lib, instances=False)
            if mapped:
                ds.axes[0].map = [(100, 100), (400, 500), (900, 900)]
            if quant != 1:
                # (the writers of a variable build are chosen by the default source's lib key, stated on every source)
                for f in fonts:
                    f.lib["com.github.googlei18n.ufo2ft.featureWriters"] = [{"class": "GdefFeatureWriter"}, {"class": "MarkFeatureWriter", "options": {"quantization": quant}}]
            vf = getattr(ufo2ft, fn)(ds, variableFeatures=vfeat, useProductionNames=False)
            b = io.BytesIO(); vf.save(b)
        except Exception as e:
            ctx.spec_failure(case, "%s raised %s: %s\n%s" % (fn, type(e).__name__, e, traceback.format_exc()[-1000:]))
            continue
        for k, wght in enumerate([100, 400 if mapped else 500, 900]):
            inst = instancer.instantiateVariableFont(TTFont(io.BytesIO(b.getvalue())), {"wght": wght})
            b2 = io.BytesIO(); inst.save(b2)
            lay = Layout(TTFont(io.BytesIO(b2.getvalue())))
            lk = lay.lookups_for("DFLT", {"mark", "mkmk"})
            by = {g["name"]: dict((a[0], (a[1], a[2])) for a in g["anchors"]) for g in masters[k]["glyphs"]}
            for base, banchor, mark, manchor, comp in (("a", "top", "acutecomb", "_top", None), ("a", "bottom", "dotbelowcomb", "_bottom", None),
                                                       ("f_i", "top_1", "acutecomb", "_top", 0), ("f_i", "top_2", "acutecomb", "_top", 1),
                                                       ("acutecomb", "top", "acutecomb", "_top", None)):
                qz = lambda v: quant * geom.ot_round(Fr(v) / quant)
                want = (int(qz(by[base][banchor][0]) - qz(by[mark][manchor][0])), int(qz(by[base][banchor][1]) - qz(by[mark][manchor][1])))
                got = lay.mark_attach(lk, base, mark, comp)
                if got is None or tuple(got[:2]) != want:
                    ctx.spec_failure(dict(case, master=k, base=base, mark=mark, component=comp),
                                     "at master %d's location %s attaches to %s%s by %r; that master's anchors coincide at %r" % (
                                         k, mark, base, "" if comp is None else " (component %d)" % comp, got and got[:2], want))


def colliding_names_section(ctx):
    """anchor names that differ only in characters which are not legal in a feature-file class name ('top-x' / 'topx', 'a+b' /
    'ab', 'top x' / 'topx'): a mark attaches where the anchor names MATCH and nowhere else"""
    import ufo2ft
    from fontTools.ttLib import TTFont
    PAIRS = [("top-x", "topx"), ("a+b", "ab"), ("topx", "top x"), ("k\u00e9y", "ky")]
    for i in range(ctx.budget(len(PAIRS) * 2, len(PAIRS) * 4)):
        n1, n2 = PAIRS[i % len(PAIRS)]
        lib = ["ufoLib2", "defcon"][(i // len(PAIRS)) % 2]
        group = (i // (2 * len(PAIRS))) % 2 == 1
        glyphs = [{"name": "a", "unicodes": [0x61], "width": 500, "contours": [], "anchors": [(n1, Fr(100), Fr(500))]},
                  {"name": "b", "unicodes": [0x62], "width": 500, "contours": [], "anchors": [(n2, Fr(300), Fr(510))]},
                  {"name": "m1", "unicodes": [0x301], "width": 0, "contours": [], "anchors": [("_" + n1, Fr(0), Fr(480)), (n1, Fr(5), Fr(700))]},
                  {"name": "m2", "unicodes": [0x302], "width": 0, "contours": [], "anchors": [("_" + n2, Fr(10), Fr(470)), (n2, Fr(15), Fr(690))]}]
        desc = {"glyphs": glyphs, "features": "languagesystem DFLT dflt;\n",
                "lib": {"public.openTypeCategories": {"a": "base", "b": "base", "m1": "mark", "m2": "mark"}}}
        case = {"font": jsonable(desc), "lib": lib, "anchor_names": [n1, n2], "groupMarkClasses": group}
        ctx.count(); ctx.klass("anchor names colliding as class names: %r / %r" % (n1, n2)); ctx.nontriv(("coll", i, ctx.scale))
        try:
            from ufo2ft.featureWriters import KernFeatureWriter, MarkFeatureWriter, GdefFeatureWriter, CursFeatureWriter
            tt = ufo2ft.compileTTF(build_font(desc, lib), useProductionNames=False,
                                   featureWriters=[CursFeatureWriter, KernFeatureWriter, MarkFeatureWriter(groupMarkClasses=group), GdefFeatureWriter])
            b = io.BytesIO(); tt.save(b); lay = Layout(TTFont(io.BytesIO(b.getvalue())))
        except Exception as e:
            ctx.spec_failure(case, "compile raised %s: %s\n%s" % (type(e).__name__, e, traceback.format_exc()[-1000:]))
            continue
        lk = lay.lookups_for("DFLT", {"mark"})
        want = {("a", "m1"): (100, 20), ("a", "m2"): None, ("b", "m1"): None, ("b", "m2"): (290, 40)}
        for (base, mk), w in want.items():
            got = lay.mark_attach(lk, base, mk)
            got = tuple(got[:2]) if got else None
            if got != w:
                ctx.spec_failure(dict(case, base=base, mark=mk), "%s on %s: attached by %r, the anchors %s" % (
                    mk, base, got, "coincide at %r" % (w,) if w else "share no name: no attachment"))
        # ... and the marks stack on themselves by the same names (mark-to-mark: lookups named after the anchor, F46)
        lk2 = lay.lookups_for("DFLT", {"mkmk"})
        for (below, mk), w in {("m1", "m1"): (5, 220), ("m2", "m2"): (5, 220), ("m1", "m2"): None, ("m2", "m1"): None}.items():
            got = lay.mark_attach(lk2, below, mk)
            got = tuple(got[:2]) if got else None
            if got != w:
                ctx.spec_failure(dict(case, base=below, mark=mk), "%s on the mark %s: attached by %r, the anchors %s" % (
                    mk, below, got, "coincide at %r" % (w,) if w else "share no name: no attachment"))


def mark_class_section(ctx):
    """_makeMarkClassDefinitions against Mark/MarkClasses.v: feature files that already define mark classes -- under the
    name the writer generates (@MC_top), under its first fallback (@MC_top_1), under other names -- holding some of the
    font's marks with their current or with stale anchors.  Observed on the compiled feature source: the final mark
    classes and the class each generated `pos base` statement references."""
    import ufo2ft
    from fontTools.feaLib.parser import Parser
    from fontTools.feaLib import ast as fa
    rng = ctx.subrng("mark-classes")
    MARKS = ["m1", "m2", "m3", "m4"]
    cases, meta = [], []
    for i in range(ctx.budget(60, 400)):
        nm = rng.randint(1, 4)
        marks = MARKS[:nm]
        ufo_anchor = {m: {"top": (rng.randint(-5, 5) * 10, 480 + rng.randint(0, 4) * 5)} for m in marks}
        two = i % 3 == 0
        if two:
            for m in marks[::2]:
                ufo_anchor[m]["bottom"] = (rng.randint(-3, 3) * 10, -20 - rng.randint(0, 3) * 5)
        glyphs = [{"name": "b", "unicodes": [0x62], "width": 500, "contours": [], "components": [],
                   "anchors": [("top", Fr(250), Fr(600)), ("bottom", Fr(250), Fr(0))]}]
        for k, m in enumerate(marks):
            glyphs.append({"name": m, "unicodes": [0x300 + k], "width": 0, "contours": [], "components": [],
                           "anchors": [("_" + an, Fr(x), Fr(y)) for an, (x, y) in ufo_anchor[m].items()]})
        # user classes
        user = []
        for cname in rng.sample(["MC_top", "MC_top_1", "MC_top_2", "MC_bottom", "other"], rng.randint(0, 3)):
            mem = []
            for m in rng.sample(marks, rng.randint(1, nm)):
                an = "bottom" if cname == "MC_bottom" and "bottom" in ufo_anchor[m] else "top"
                x, y = ufo_anchor[m][an]
                if rng.random() < 0.5:
                    x, y = x + 100, y - 37                 # a stale definition
                mem.append((m, (x, y)))
            user.append((cname, mem))
        fea = "languagesystem DFLT dflt;\n" + "".join("markClass %s <anchor %d %d> @%s;\n" % (m, x, y, c) for c, mem in user for m, (x, y) in mem)
        desc = {"glyphs": glyphs, "features": fea, "glyphOrder": ["b"] + marks,
                "lib": {"public.openTypeCategories": dict({"b": "base"}, **{m: "mark" for m in marks})}}
        case = {"features": fea, "ufo_mark_anchors": ufo_anchor, "lib": ["ufoLib2", "defcon"][i % 2]}
        ctx.count(); ctx.klass("mark classes: %d user classes%s" % (len(user), ", MC_top taken" if any(c == "MC_top" for c, _ in user) else ""))
        if user:
            ctx.nontriv(("mc", i, ctx.scale))
        try:
            dbg = io.StringIO()
            ufo2ft.compileTTF(build_font(desc, case["lib"]), useProductionNames=False, debugFeatureFile=dbg)
            final = Parser(io.StringIO(dbg.getvalue()), glyphNames=["b"] + marks).parse()
        except Exception as e:
            ctx.spec_failure(case, "compile raised %s: %s\n%s" % (type(e).__name__, e, traceback.format_exc()[-1000:]))
            continue
        obs_classes = []
        for name, mc in final.markClasses.items():
            mem = []
            for d in mc.definitions:
                for g in d.glyphs.glyphSet():
                    mem.append((g, (int(d.anchor.x), int(d.anchor.y))))
            obs_classes.append((name, mem))
        used = {}
        def walk(st):
            for x in getattr(st, "statements", []):
                if isinstance(x, fa.MarkBasePosStatement):
                    for anchor, mc in x.marks:
                        used[(int(anchor.x), int(anchor.y))] = mc.name
                walk(x)
        walk(final)
        obs_used = [used.get((250, 0)), used.get((250, 600))]           # class referenced for bottom, for top
        gm = lambda mem: G.lst([G.tup(G.s(g), G.tup(G.z(x), G.z(y))) for g, (x, y) in mem], "(str * xy)")
        gc = lambda cl: G.lst([G.tup(G.s(n), gm(mem)) for n, mem in cl], "(str * members)")
        anchors = []
        for an in ["bottom", "top"]:
            mem = [(m, ufo_anchor[m][an]) for m in marks if an in ufo_anchor[m]]
            if mem:
                anchors.append((an, mem))
        cases.append(G.tup(G.lst([G.tup(G.s("MC_" + an), gm(mem)) for an, mem in anchors], "(str * members)"), gc(user), gc(obs_classes),
                           G.lst([G.opt(G.s(obs_used[["bottom", "top"].index(an)]) if obs_used[["bottom", "top"].index(an)] else None, "str")
                                  for an, _ in anchors], "(option str)")))
        meta.append(dict(case, final_mark_classes=obs_classes, class_used_for_bottom_top=obs_used))
    vals = ctx.coq_eval("From U2F Require Import Base.Prelude Mark.MarkClasses.",
                        "fun c : (list (str * members) * classes * classes * list (option str)) => let '(anchors, cls, obs, used) := c in "
                        "let r := process_all cand_dec anchors cls in "
                        "(if classes_same (fst r) obs && list_eqb (option_eqb str_eqb) (map Some (snd r)) used then 1 else 0) + "
                        "(if spec_all anchors obs used then 2 else 0)", cases, chunk=60, tag="MarkClasses")
    for v, case in zip(vals, meta):
        if v is None:
            continue
        if not v & 2:
            ctx.spec_failure(case, "a mark is not, with its own UFO anchor, in the mark class the generated `pos base` statement references for its anchor")
        elif not v & 1:
            ctx.corr_mismatch(case, "Gallina process_all (Mark/MarkClasses.v) differs from the compiled feature file's mark classes / class references")


def partial_todo_section(ctx):
    """an Indic font (abvm / blwm) where only SOME of the four features are left to the writer: one of them is hand-written in the
    feature file without a marker (and attaches its own pairs correctly), or is left out of the writer's `features` argument.
    Every feature that IS the writer's to make still makes its pairs coincide -- one feature being hand-written takes nothing
    away from the others"""
    import ufo2ft
    from fontTools.ttLib import TTFont
    from ufo2ft.featureWriters import MarkFeatureWriter, GdefFeatureWriter
    A = {"a": (0x61, 500, [("top", 250, 480), ("bottom", 250, -10)]), "acutecomb": (0x301, 0, [("_top", 100, 450), ("top", 100, 600)]),
         "dotbelowcomb": (0x323, 0, [("_bottom", 100, -40)]),
         "ka-deva": (0x915, 500, [("top", 320, 640), ("bottom", 300, -20)]), "anusvara-deva": (0x902, 0, [("_top", -60, 600), ("top", -60, 720)]),
         "uMatra-deva": (0x941, 0, [("_bottom", -80, 0), ("bottom", -80, -150)])}
    served = {("a", "acutecomb"): "mark", ("a", "dotbelowcomb"): "mark", ("acutecomb", "acutecomb"): "mkmk",
              ("ka-deva", "anusvara-deva"): "abvm", ("anusvara-deva", "anusvara-deva"): "abvm",
              ("ka-deva", "uMatra-deva"): "blwm", ("uMatra-deva", "uMatra-deva"): "blwm"}
    HAND = {"abvm": "markClass anusvara-deva <anchor -60 600> @H_ABOVE;\nfeature abvm {\n  pos base ka-deva <anchor 320 640> mark @H_ABOVE;\n"
                    "  pos mark anusvara-deva <anchor -60 720> mark @H_ABOVE;\n} abvm;\n",
            "blwm": "markClass uMatra-deva <anchor -80 0> @H_BELOW;\nfeature blwm {\n  pos base ka-deva <anchor 300 -20> mark @H_BELOW;\n"
                    "  pos mark uMatra-deva <anchor -80 -150> mark @H_BELOW;\n} blwm;\n",
            "mark": "markClass acutecomb <anchor 100 450> @H_TOP;\nmarkClass dotbelowcomb <anchor 100 -40> @H_BOT;\nfeature mark {\n"
                    "  pos base a <anchor 250 480> mark @H_TOP <anchor 250 -10> mark @H_BOT;\n} mark;\n",
            "mkmk": "markClass acutecomb <anchor 100 450> @H_TOP2;\nfeature mkmk {\n  pos mark acutecomb <anchor 100 600> mark @H_TOP2;\n} mkmk;\n"}
    variants = [("hand", h) for h in ("abvm", "blwm", "mark", "mkmk")] + [("left-out", h) for h in ("abvm", "blwm", "mark", "mkmk")] + [("hand", None)]
    for i in range(ctx.budget(len(variants) * 2, len(variants) * 4)):
        how, tag = variants[i % len(variants)]
        lib = ["ufoLib2", "defcon"][(i // len(variants)) % 2]
        group = (i // (2 * len(variants))) % 2 == 1
        glyphs = [{"name": n, "unicodes": [u], "width": w, "contours": [], "anchors": [(an, Fr(x), Fr(y)) for an, x, y in anc]} for n, (u, w, anc) in A.items()]
        fea = "languagesystem DFLT dflt;\nlanguagesystem dev2 dflt;\nlanguagesystem latn dflt;\n" + (HAND[tag] if how == "hand" and tag else "")
        desc = {"glyphs": glyphs, "features": fea, "lib": {"public.openTypeCategories": {n: ("mark" if w == 0 else "base") for n, (u, w, anc) in A.items()}}}
        wkw = {"groupMarkClasses": group}
        if how == "left-out":
            wkw["features"] = [t for t in ("mark", "mkmk", "abvm", "blwm") if t != tag]
        case = {"font": jsonable(desc), "lib": lib, "how": how, "feature": tag, "writer_options": jsonable(wkw)}
        ctx.count(); ctx.klass("partial to-do: %s %s" % (tag, how) if tag else "partial to-do: all four generated"); ctx.nontriv(("todo", i, ctx.scale))
        try:
            tt = ufo2ft.compileTTF(build_font(desc, lib), useProductionNames=False, featureWriters=[MarkFeatureWriter(**wkw), GdefFeatureWriter])
            b = io.BytesIO(); tt.save(b); lay = Layout(TTFont(io.BytesIO(b.getvalue())))
        except Exception as e:
            ctx.spec_failure(case, "compile raised %s: %s\n%s" % (type(e).__name__, e, traceback.format_exc()[-1000:]))
            continue
        by = {n: {an: (x, y) for an, x, y in anc} for n, (u, w, anc) in A.items()}
        for script in ("DFLT", "dev2", "latn"):
            lk = lay.lookups_for(script, {"mark", "mkmk", "abvm", "blwm"})
            for (base, mk), feat in served.items():
                if how == "left-out" and feat == tag:
                    continue                                  # nobody was asked to make it
                key = [an[1:] for an in by[mk] if an.startswith("_")][0]
                want = (by[base][key][0] - by[mk]["_" + key][0], by[base][key][1] - by[mk]["_" + key][1])
                got = lay.mark_attach(lk, base, mk)
                got = tuple(got[:2]) if got else None
                if got != want:
                    ctx.spec_failure(dict(case, script=script, base=base, mark=mk, served_by=feat),
                                     "%s on %s under %s: attached by %r; the anchors %r coincide at %r (the pair is served by '%s', %s)" % (
                                         mk, base, script, got, key, want, feat,
                                         "hand-written here" if how == "hand" and feat == tag else "which the writer was to generate"))


def split_gdef_section(ctx):
    """the user's GDEF table written in SEVERAL blocks, the glyph classes not in the first one: the classes decide who is a base
    and who is a mark -- `acute`, a GDEF base that carries both `_top` and `top`, takes marks and is not attached as one"""
    import ufo2ft
    from fontTools.ttLib import TTFont
    ORDERS = [["carets", "classes"], ["classes", "carets"], ["carets", "attach", "classes"]]
    BLOCK = {"carets": "table GDEF {\n    LigatureCaretByPos f_i 100;\n} GDEF;\n", "attach": "table GDEF {\n    Attach a 1;\n} GDEF;\n",
             "classes": "table GDEF {\n    GlyphClassDef [a acute], [f_i], [acutecomb], ;\n} GDEF;\n"}
    for i in range(ctx.budget(2 * len(ORDERS), 4 * len(ORDERS))):
        order = ORDERS[i % len(ORDERS)]
        lib = ["ufoLib2", "defcon"][(i // len(ORDERS)) % 2]
        glyphs = [{"name": "a", "unicodes": [0x61], "width": 500, "contours": [], "anchors": [("top", Fr(250), Fr(500))]},
                  {"name": "acute", "unicodes": [0xB4], "width": 300, "contours": [], "anchors": [("_top", Fr(100), Fr(480)), ("top", Fr(150), Fr(700))]},
                  {"name": "f_i", "unicodes": [0xFB01], "width": 600, "contours": [], "anchors": []},
                  {"name": "acutecomb", "unicodes": [0x301], "width": 0, "contours": [], "anchors": [("_top", Fr(0), Fr(500))]}]
        desc = {"glyphs": glyphs, "features": "languagesystem DFLT dflt;\n" + "".join(BLOCK[b] for b in order)}
        case = {"font": jsonable(desc), "lib": lib, "gdef_blocks": order}
        ctx.count(); ctx.klass("GDEF table in several blocks: %s" % "+".join(order)); ctx.nontriv(("sgdef", i, ctx.scale))
        try:
            tt = ufo2ft.compileTTF(build_font(desc, lib), useProductionNames=False)
            b = io.BytesIO(); tt.save(b); lay = Layout(TTFont(io.BytesIO(b.getvalue())))
        except Exception as e:
            ctx.spec_failure(case, "compile raised %s: %s\n%s" % (type(e).__name__, e, traceback.format_exc()[-1000:]))
            continue
        lk = lay.lookups_for("DFLT", {"mark", "mkmk"})
        want = {("a", "acutecomb"): (250, 0), ("acute", "acutecomb"): (150, 200), ("a", "acute"): None, ("acute", "acute"): None}
        for (base, mk), w in want.items():
            got = lay.mark_attach(lk, base, mk)
            got = tuple(got[:2]) if got else None
            if got != w:
                ctx.spec_failure(dict(case, base=base, mark=mk), "%s on %s: attached by %r; with the GDEF classes of the feature file (acute is a base) it is %r" % (mk, base, got, w))


def explore(ctx):
    split_gdef_section(ctx)
    partial_todo_section(ctx)
    mark_class_section(ctx)
    colliding_names_section(ctx)
    variable_section(ctx)
    contextual_orphan_section(ctx)
    color_graph_section(ctx)
    import ufo2ft
    from fontTools.ttLib import TTFont
    from ufo2ft.featureWriters import MarkFeatureWriter, GdefFeatureWriter
    # ---------------- (a) parseAnchorName
    rng = ctx.subrng("parse")
    cases, meta = [], []
    seen = set()
    for i in range(ctx.budget(400, 3000)):
        nm = gen_name(rng)
        got = impl_parse(nm)
        cases.append(G.tup(G.s(nm), got))
        meta.append({"anchor_name": nm, "impl": got})
        ctx.count()
        ctx.klass("parseAnchorName")
        if nm not in seen:
            seen.add(nm)
            ctx.nontriv(("name", nm))
    vals = ctx.coq_eval(IMPORTS, FN_PARSE, cases, chunk=500, tag="Parse")
    for v, case in zip(vals, meta):
        if v is not None and v != 3:
            ctx.corr_mismatch(case, "Gallina parse_anchor_name differs from parseAnchorName")
    # ---------------- (b) compiled attachments
    rng = ctx.subrng("attach")
    cases, meta = [], []
    for i in range(ctx.budget(60, 500)):
        desc = gen_font(rng, modifier=(i % 6 == 4))
        if i % 6 == 4:
            ctx.klass("a base glyph (by category) that carries a matched attaching anchor")
        lib = rng.choice(["ufoLib2", "defcon"])
        case = {"font": jsonable(desc), "lib": lib}
        try:
            tt = ufo2ft.compileTTF(build_font(desc, lib), useProductionNames=False,
                                   featureWriters=[GdefFeatureWriter, MarkFeatureWriter(quantization=desc["quantization"],
                                                                                       groupMarkClasses=desc["group"])])
            buf = io.BytesIO(); tt.save(buf); buf.seek(0); tt = TTFont(buf)
        except Exception as e:
            ctx.spec_failure(case, "compile raised %s: %s\n%s" % (type(e).__name__, e, traceback.format_exc()[-1200:]))
            continue
        lay = Layout(tt)
        names = [g["name"] for g in desc["glyphs"]]
        cats = desc["lib"].get("public.openTypeCategories")
        tags = list(lay.scripts()) or ["DFLT"]
        obs = []
        for tag in tags:
            lookups = lay.lookups_for(tag, {"mark", "mkmk", "abvm", "blwm"})
            for b in names:
                ncomp = lay.lig_component_count(lookups, b)
                for m in names:
                    got = lay.mark_attach(lookups, b, m)
                    obs.append((b, m, None, None if got is None else got[:2]))
                    for k in range(ncomp):
                        got = lay.mark_attach(lookups, b, m, component=k)
                        obs.append((b, m, k + 1, None if got is None else got[:2]))
                # ligature components beyond what the font holds: numbered anchors must not be lost
                by = {g["name"]: g for g in desc["glyphs"]}
                maxn = max([int(a[0].rsplit("_", 1)[1]) for a in by[b]["anchors"] if re.match(r".+_\d+$", a[0])] + [0])
                for k in range(ncomp, maxn):
                    for m in names:
                        obs.append((b, m, k + 1, None))
        g_in = "(mkMI %s %s)" % (G.lst(["(mkMG %s %s)" % (G.s(g["name"]), G.lst(
            ["(mkMA %s %s %s)" % (G.s(a[0]), geom.g_q(a[1]), geom.g_q(a[2])) for a in g["anchors"]], "manchor"))
            for g in desc["glyphs"]], "mglyph"), geom.g_q(desc["quantization"]))
        if cats:
            # GDEF categories restrict who takes part: pairs involving a glyph whose category contradicts its role are not judged
            base_keys = {re.sub(r"_\d+$", "", a[0]) for g in desc["glyphs"] for a in g["anchors"] if not a[0].startswith("_")}

            def attaches_somewhere(gname):
                g = next(x for x in desc["glyphs"] if x["name"] == gname)
                return any(a[0].startswith("_") and a[0][1:] in base_keys for a in g["anchors"])

            def role_ok(b, m):
                # a glyph categorised as mark whose own '_x' anchors match nothing in the font is neither a mark
                # glyph for the writer nor a GDEF base: it takes no part (not judged)
                if cats.get(b) == "mark" and not attaches_somewhere(b):
                    return False
                return cats.get(m) == "mark" and cats.get(b) in ("base", "ligature", "mark")
            obs = [o for o in obs if role_ok(o[0], o[1])]
        if desc.get("script_groups"):
            # pairs across the abvm / non-abvm divide are outside the checked domain (observation O2)
            sg = desc["script_groups"]
            obs = [o for o in obs if sg.get(o[0]) == sg.get(o[1])]
            ctx.klass("indic font with glyphs of an undeclared Indic script")
        g_obs = G.lst([G.tup(G.tup(G.tup(G.s(b), G.s(m)), G.opt(None if k is None else G.z(k), "Z")),
                             G.opt(None if off is None else G.tup(G.z(off[0]), G.z(off[1])), "(Z * Z)"))
                       for b, m, k, off in obs], "attach_obs")
        cases.append((g_in, g_obs))
        meta.append(case)
        ctx.count()
        ctx.klass("attach:group=%s/%s" % (desc["group"], "cats" if cats else "nocats"))
        if any(o[3] is not None for o in obs):
            ctx.nontriv(("attach", i, ctx.scale))
    vals = ctx.coq_eval(IMPORTS, FN, [G.tup(a, b) for a, b in cases], chunk=10, tag="Attach")
    for v, (gi, go), case in zip(vals, cases, meta):
        if v is None:
            continue
        if v != 3:
            txt = ctx.coq_show(IMPORTS, "failing_C06 %s %s" % (gi, go), tag="Why")
            bad = []
            for m in re.finditer(r"\((\d+),\s*\(\[([\d;\s]*)\],\s*\[([\d;\s]*)\]\)\)", txt):
                dec = lambda t: "".join(chr(int(x)) for x in t.replace("\n", " ").split(";") if x.strip())
                bad.append((int(m.group(1)), dec(m.group(2)), dec(m.group(3))))
            codes = {1: "attached although no anchor pair matches", 2: "not attached although an anchor pair matches",
                     3: "offset is not base anchor minus mark anchor of any shared class"}
            ctx.spec_failure(dict(case, pairs=sorted(set(bad))[:8]),
                             "spec_C06 false: " + "; ".join("%s <- %s: %s" % (b, m, codes.get(c, c)) for c, b, m in sorted(set(bad))[:5]))
    if meta:
        ctx.sample({"glyphs": meta[0]["font"]["glyphs"][:3], "quantization": meta[0]["font"]["quantization"]})
