#!/usr/bin/env python3
"""usage: seedstore.py <round-dir> <k> <confirm-dir> Cxx...  -- store confirmed sub-agent changes as seeded/<Cxx>-sub<k>/"""
import json, os, shutil, subprocess, sys
R, K, CD = sys.argv[1], int(sys.argv[2]), sys.argv[3]
head = subprocess.check_output(["git", "-C", "/repo", "rev-parse", "--short", "HEAD"], text=True).strip()
for P in sys.argv[4:]:
    conf = open(os.path.join(CD, P + ".txt")).read()
    if "CONFIRMED" not in conf.splitlines()[-1] or "NOT-CONFIRMED" in conf:
        print(P, "not confirmed -- skipped"); continue
    src, dst = os.path.join(R, P, "_seed"), "/verif/seeded/%s-sub%d" % (P, K)
    os.makedirs(dst, exist_ok=True)
    for f in ("patch.diff", "demo.py"):
        shutil.copy(os.path.join(src, f), os.path.join(dst, f))
    m = json.load(open(os.path.join(src, "meta.json")))
    tests = [l for l in conf.splitlines() if l.startswith("tests with patch")]
    meta = {"property": P, "summary": m.get("summary"), "needs": m.get("needs"),
            "demo_fails_with_patch": True, "demo_passes_without_patch": True,
            "tests_pass_with_patch": tests[0].split(": ", 1)[1] if tests else str(m.get("tests_pass_with_patch")),
            "origin": "fresh sub-agent (round %d: given the summaries of the %d earlier changes for its property and asked for "
                      "another function, mechanism and trigger), property text + scratch worktree only" % (K, K - 1),
            "confirmed_by_me": {"how": "harness/seedconfirm.sh in a scratch worktree of /repo HEAD (%s): demo exit 0 on the "
                                       "unchanged tree, exit 1 with the patch, pytest 1148 passed with the patch" % head},
            "detection": {"first_attempt": "?", "after_strengthening": "?", "result_file": "result.txt"}}
    json.dump(meta, open(os.path.join(dst, "meta.json"), "w"), indent=1)
    print(P, "stored in", dst)
