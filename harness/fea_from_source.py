#!/usr/bin/env python3
"""Translator for two small functions of the feature writers that BUILD or READ lists of feaLib statements, from /repo's current
source into Gallina (coq/theories/Generated/FeaGen.v, rewritten on every run):

  featureWriters/ast.py            addLookupReferences   -> tr_add_lookup_refs   (statement emitter: one growing list)
  featureWriters/baseFeatureWriter BaseFeatureWriter._contextAt -> tr_context_at (a fold with three scalar variables)

The translations are PROVED equal to the hand models the theorems are about (Fea/LookupRefsTied.v, Fea/ContextTied.v), so those
theorems speak about what the code says now; a change of the source changes the generated term and the tie lemma stops checking.

Fragments (anything else is fail-closed -> an opaque `fea_untranslated*` constant about which nothing can be proved):

 emitter   statements  <feature>.statements.append(C(args))  |  assert e (skipped: a precondition)
                       | if c: S [else: S]  | `if c: S; return` (the rest of the function is the else branch)
                       | for x in it: S     | `if c: continue` as first statement of a loop body
           iterables   a list parameter | `p or ("lit",)` | `p or ()`   (an empty / None list is falsy)
           conditions  not p (p an optional string: None and "" are falsy) | p (a bool parameter) | x == "lit"
           constructors  a table {python class name: (Gallina constructor, [argument kinds])}
 fold      `a = b = c = None`; `for st in param:` with an if / elif chain of isinstance(st, ast.K) tests whose bodies assign
           variables (singly or as tuples) from the loop variable or None; `return [s for s in (a, b, c) if s is not None]`
"""
import ast, os, sys

REPO = os.environ.get("UFO2FT_REPO", "/repo")
OUT = os.environ.get("FEAGEN_OUT") or os.path.join(os.path.dirname(os.path.abspath(__file__)), "..", "coq", "theories", "Generated", "FeaGen.v")


class Unknown(Exception):
    pass


def strlit(s):
    return "([" + "; ".join(str(ord(c)) for c in s) + "]%Z : str)"


def coq_string(s):
    return '"' + s.replace('"', "'").replace("\n", " ")[:120] + '"'


# ---------------------------------------------------------------- the emitter fragment
class Emitter:
    """params: {python name: kind}; kinds: 'strs' (list of names, None = empty), 'ostr' (optional string), 'bool', 'sink' (the
    object whose .statements grows).  ctors: {class name: (Gallina constructor, [(kind of positional / keyword argument)])}"""

    def __init__(self, params, ctors):
        self.params, self.ctors = params, ctors
        self.locals = {}

    def value(self, e):
        if isinstance(e, ast.Constant) and isinstance(e.value, str):
            return strlit(e.value)
        if isinstance(e, ast.Constant) and isinstance(e.value, bool):
            return "true" if e.value else "false"
        if isinstance(e, ast.Name) and e.id in self.locals:
            return e.id + "_"
        if isinstance(e, ast.Name) and self.params.get(e.id) == "ostr":
            return "(oget %s_)" % e.id
        if isinstance(e, ast.Name) and self.params.get(e.id) == "bool":
            return e.id + "_"
        raise Unknown("value " + ast.unparse(e))

    def ctor(self, e):
        if not (isinstance(e, ast.Call) and isinstance(e.func, ast.Attribute) and isinstance(e.func.value, ast.Name)
                and e.func.value.id == "ast" and e.func.attr in self.ctors):
            raise Unknown("constructor " + ast.unparse(e))
        name, kws = self.ctors[e.func.attr]
        args = [self.value(a) for a in e.args]
        given = {k.arg: self.value(k.value) for k in e.keywords}
        if len(args) + len(given) != len(kws) or set(given) != set(kws[len(args):]):
            raise Unknown("arguments of " + ast.unparse(e))
        args += [given[k] for k in kws[len(args):]]
        return "(%s %s)" % (name, " ".join(args))

    def cond(self, e):
        if isinstance(e, ast.UnaryOp) and isinstance(e.op, ast.Not) and isinstance(e.operand, ast.Name) \
                and self.params.get(e.operand.id) == "ostr":
            return "(negb (truthy %s_))" % e.operand.id
        if isinstance(e, ast.Name) and self.params.get(e.id) == "bool":
            return e.id + "_"
        if isinstance(e, ast.Compare) and len(e.ops) == 1 and isinstance(e.ops[0], ast.Eq) \
                and isinstance(e.left, ast.Name) and e.left.id in self.locals \
                and isinstance(e.comparators[0], ast.Constant) and isinstance(e.comparators[0].value, str):
            return "(str_eqb %s_ %s)" % (e.left.id, strlit(e.comparators[0].value))
        raise Unknown("condition " + ast.unparse(e))

    def iterable(self, e):
        if isinstance(e, ast.Name) and self.params.get(e.id) == "strs":
            return e.id + "_"
        if isinstance(e, ast.BoolOp) and isinstance(e.op, ast.Or) and len(e.values) == 2 and isinstance(e.values[0], ast.Name) \
                and self.params.get(e.values[0].id) == "strs" and isinstance(e.values[1], ast.Tuple) \
                and all(isinstance(x, ast.Constant) and isinstance(x.value, str) for x in e.values[1].elts):
            return "(or_list %s_ [%s])" % (e.values[0].id, "; ".join(strlit(x.value) for x in e.values[1].elts))
        raise Unknown("iteration over " + ast.unparse(e))

    def is_append(self, st):
        return (isinstance(st, ast.Expr) and isinstance(st.value, ast.Call) and isinstance(st.value.func, ast.Attribute)
                and st.value.func.attr == "append" and isinstance(st.value.func.value, ast.Attribute)
                and st.value.func.value.attr == "statements" and isinstance(st.value.func.value.value, ast.Name)
                and self.params.get(st.value.func.value.value.id) == "sink" and len(st.value.args) == 1 and not st.value.keywords)

    def no_jumps(self, stmts, what, inner=False):
        """no return anywhere, and no continue / break that would leave THIS block (those of a nested loop are its own)"""
        for st in stmts:
            if isinstance(st, ast.Return) or (not inner and isinstance(st, (ast.Continue, ast.Break))):
                raise Unknown("jump inside " + what)
            if isinstance(st, (ast.For, ast.While)):
                self.no_jumps(st.body + st.orelse, what, True)
            elif isinstance(st, ast.If):
                self.no_jumps(st.body + st.orelse, what, inner)
            elif isinstance(st, (ast.With, ast.Try, ast.FunctionDef, ast.ClassDef, ast.Match)):
                raise Unknown("compound statement inside " + what)

    def block(self, stmts, in_loop, top):
        """a Gallina term of type `list fstmt`, in a context that binds out_"""
        if not stmts:
            return "out_"
        st, rest = stmts[0], stmts[1:]
        if isinstance(st, ast.Assert):
            return self.block(rest, in_loop, top)
        if self.is_append(st):
            return "let out_ := out_ ++ [%s] in %s" % (self.ctor(st.value.args[0]), self.block(rest, in_loop, top))
        if isinstance(st, ast.If):
            # `if c: S; return` at function level / `if c: continue` in a loop: what follows is the else branch
            if st.body and not st.orelse and ((top and isinstance(st.body[-1], ast.Return) and st.body[-1].value is None)
                                              or (in_loop and isinstance(st.body[-1], ast.Continue))):
                self.no_jumps(st.body[:-1], "an early exit")
                return "(if %s then %s else %s)" % (self.cond(st.test), self.block(st.body[:-1], False, False),
                                                    self.block(rest, in_loop, top))
            self.no_jumps(st.body + st.orelse, ast.unparse(st).splitlines()[0])
            return "let out_ := (if %s then %s else %s) in %s" % (self.cond(st.test), self.block(st.body, False, False),
                                                                  self.block(st.orelse, False, False), self.block(rest, in_loop, top))
        if isinstance(st, ast.For) and isinstance(st.target, ast.Name) and not st.orelse:
            x = st.target.id
            if x in self.locals or x in self.params:
                raise Unknown("loop variable %s shadows a name" % x)
            it = self.iterable(st.iter)
            self.locals[x] = "str"
            body = self.block(st.body, True, False)
            del self.locals[x]
            return "let out_ := fold_left (fun (out_ : list fstmt) (%s_ : str) => %s) %s out_ in %s" % (x, body, it, self.block(rest, in_loop, top))
        raise Unknown("statement " + ast.unparse(st).splitlines()[0])


def find_function(tree, name, args, cls=None):
    body = tree.body
    if cls is not None:
        c = next((n for n in body if isinstance(n, ast.ClassDef) and n.name == cls), None)
        if c is None:
            raise Unknown("class %s not found" % cls)
        body = c.body
    fn = next((n for n in body if isinstance(n, ast.FunctionDef) and n.name == name), None)
    if fn is None:
        raise Unknown(name + " not found")
    if [a.arg for a in fn.args.args] != args:
        raise Unknown("signature of " + name)
    stmts = fn.body
    if stmts and isinstance(stmts[0], ast.Expr) and isinstance(stmts[0].value, ast.Constant):
        stmts = stmts[1:]
    return fn, stmts


def target_add_lookup_refs():
    tree = ast.parse(open(os.path.join(REPO, "Lib", "ufo2ft", "featureWriters", "ast.py")).read())
    fn, stmts = find_function(tree, "addLookupReferences", ["feature", "lookups", "script", "languages", "exclude_dflt"])
    dv = [ast.unparse(d) for d in fn.args.defaults]
    if dv != ["None", "None", "False"]:
        raise Unknown("defaults of addLookupReferences: " + ", ".join(dv))
    em = Emitter({"feature": "sink", "lookups": "strs", "script": "ostr", "languages": "strs", "exclude_dflt": "bool"},
                 {"ScriptStatement": ("LookupRefs.SScript", []), "LookupReferenceStatement": ("LookupRefs.SLookup", []),
                  "LanguageStatement": ("LookupRefs.SLang", ["include_default"])})
    # positional arity: one positional argument each (the tag / the lookup); keyword arguments as listed
    em.ctors = {k: (c, ["_pos"] + kws) for k, (c, kws) in em.ctors.items()}
    orig_ctor = em.ctor

    def ctor(e):
        if isinstance(e, ast.Call) and len(e.args) != 1:
            raise Unknown("arguments of " + ast.unparse(e))
        return orig_ctor(e)
    em.ctor = ctor
    term = em.block(stmts, False, True)
    return ("Definition tr_add_lookup_refs (out_ : list fstmt) (lookups_ : list str) (script_ : option str) (languages_ : list str)\n"
            "  (exclude_dflt_ : bool) : list fstmt :=\n  %s." % term)


# ---------------------------------------------------------------- the fold fragment (_contextAt)
def target_context_at():
    tree = ast.parse(open(os.path.join(REPO, "Lib", "ufo2ft", "featureWriters", "baseFeatureWriter.py")).read())
    fn, stmts = find_function(tree, "_contextAt", ["statements"], cls="BaseFeatureWriter")
    KINDS = {"ScriptStatement": "is_script", "LanguageStatement": "is_language", "LookupFlagStatement": "is_flag"}
    if len(stmts) != 3:
        raise Unknown("_contextAt: %d statements" % len(stmts))
    init, loop, ret = stmts
    # a = b = c = None
    if not (isinstance(init, ast.Assign) and all(isinstance(t, ast.Name) for t in init.targets)
            and isinstance(init.value, ast.Constant) and init.value.value is None):
        raise Unknown("initialisation " + ast.unparse(init))
    names = [t.id for t in init.targets]
    if len(set(names)) != len(names) or not names:
        raise Unknown("initialisation " + ast.unparse(init))
    if not (isinstance(loop, ast.For) and isinstance(loop.target, ast.Name) and isinstance(loop.iter, ast.Name)
            and loop.iter.id == "statements" and not loop.orelse and len(loop.body) == 1 and isinstance(loop.body[0], ast.If)):
        raise Unknown("loop " + ast.unparse(loop).splitlines()[0])
    x = loop.target.id
    if x in names:
        raise Unknown("loop variable shadows a state variable")

    def val(e):
        if isinstance(e, ast.Name) and e.id == x:
            return "(Some %s_)" % x
        if isinstance(e, ast.Constant) and e.value is None:
            return "None"
        if isinstance(e, ast.Name) and e.id in names:
            return e.id + "_"
        raise Unknown("value " + ast.unparse(e))

    def assigns(body):
        new = {n: n + "_" for n in names}
        for st in body:
            if not (isinstance(st, ast.Assign) and len(st.targets) == 1):
                raise Unknown("statement " + ast.unparse(st))
            t, v = st.targets[0], st.value
            if isinstance(t, ast.Name) and t.id in names:
                pairs = [(t.id, v)]
            elif isinstance(t, ast.Tuple) and isinstance(v, ast.Tuple) and len(t.elts) == len(v.elts) \
                    and all(isinstance(a, ast.Name) and a.id in names for a in t.elts):
                pairs = [(a.id, b) for a, b in zip(t.elts, v.elts)]
            else:
                raise Unknown("assignment " + ast.unparse(st))
            # simultaneous: right-hand sides are read in the state before this statement
            before = dict(new)
            for a, b in pairs:
                if isinstance(b, ast.Name) and b.id in names:
                    new[a] = before[b.id]
                else:
                    new[a] = val(b)
        return "(" + ", ".join(new[n] for n in names) + ")"

    def chain(node):
        if not (isinstance(node.test, ast.Call) and isinstance(node.test.func, ast.Name) and node.test.func.id == "isinstance"
                and len(node.test.args) == 2 and isinstance(node.test.args[0], ast.Name) and node.test.args[0].id == x
                and isinstance(node.test.args[1], ast.Attribute) and isinstance(node.test.args[1].value, ast.Name)
                and node.test.args[1].value.id == "ast" and node.test.args[1].attr in KINDS):
            raise Unknown("test " + ast.unparse(node.test))
        then = assigns(node.body)
        if not node.orelse:
            other = "(" + ", ".join(n + "_" for n in names) + ")"
        elif len(node.orelse) == 1 and isinstance(node.orelse[0], ast.If):
            other = chain(node.orelse[0])
        else:
            other = assigns(node.orelse)
        return "(if %s %s_ then %s else %s)" % (KINDS[node.test.args[1].attr], x, then, other)
    step = chain(loop.body[0])
    # return [s for s in (a, b, c) if s is not None]
    ok = (isinstance(ret, ast.Return) and isinstance(ret.value, ast.ListComp) and len(ret.value.generators) == 1)
    if ok:
        g = ret.value.generators[0]
        ok = (isinstance(ret.value.elt, ast.Name) and isinstance(g.target, ast.Name) and ret.value.elt.id == g.target.id
              and isinstance(g.iter, ast.Tuple) and all(isinstance(a, ast.Name) and a.id in names for a in g.iter.elts)
              and len(g.ifs) == 1 and ast.unparse(g.ifs[0]) == "%s is not None" % g.target.id and not g.is_async)
    if not ok:
        raise Unknown("return " + ast.unparse(ret))
    outs = [a.id for a in ret.value.generators[0].iter.elts]
    ty = " * ".join("option cstmt" for _ in names)
    pat = "'(" + ", ".join(n + "_" for n in names) + ")" if len(names) > 1 else names[0] + "_"
    return ("Definition tr_context_at_step (st : %s) (%s_ : cstmt) : %s :=\n  let %s := st in %s.\n"
            "Definition tr_context_at (statements_ : list cstmt) : list cstmt :=\n"
            "  let %s := fold_left tr_context_at_step statements_ (%s) in\n  somes [%s]." % (
                ty, x, ty, pat, step, pat, ", ".join("None" for _ in names), "; ".join(o + "_" for o in outs)))


PRELUDE = """(* GENERATED on every run by harness/fea_from_source.py from /repo's current source -- do not edit. *)
From Coq Require Import ZArith List String Bool.
From U2F Require Import Base.Prelude Fea.LookupRefs Fea.Context.
Import ListNotations.

(* a source construct outside the translated fragment: opaque, nothing can be proved about it *)
Definition fea_untranslated_refs (what : string) (out_ : list fstmt) (lookups_ : list str) (script_ : option str) (languages_ : list str)
  (exclude_dflt_ : bool) : list fstmt. Proof. exact []. Qed.
Definition fea_untranslated_ctx (what : string) (statements_ : list cstmt) : list cstmt. Proof. exact []. Qed.

(* Python truthiness of an optional string (None and "" are falsy), its value, and `lst or default` (None / empty are falsy) *)
Definition truthy (o : option str) : bool := match o with Some (_ :: _) => true | _ => false end.
Definition oget (o : option str) : str := match o with Some s => s | None => [] end.
Definition or_list (l d : list str) : list str := match l with [] => d | _ => l end.
(* isinstance tests on feature-file statements, and `[s for s in (...) if s is not None]` *)
Definition is_script (s : cstmt) : bool := match s with Context.SScript _ => true | _ => false end.
Definition is_language (s : cstmt) : bool := match s with Context.SLanguage _ => true | _ => false end.
Definition is_flag (s : cstmt) : bool := match s with Context.SFlag _ => true | _ => false end.
Definition somes (l : list (option cstmt)) : list cstmt := flat_map (fun o => match o with Some x => [x] | None => [] end) l.
"""


def main():
    notes, out = [], [PRELUDE]
    for name, target, fallback in (
            ("addLookupReferences", target_add_lookup_refs,
             "Definition tr_add_lookup_refs (out_ : list fstmt) (lookups_ : list str) (script_ : option str) (languages_ : list str)\n"
             "  (exclude_dflt_ : bool) : list fstmt :=\n  fea_untranslated_refs %s%%string out_ lookups_ script_ languages_ exclude_dflt_."),
            ("_contextAt", target_context_at,
             "Definition tr_context_at (statements_ : list cstmt) : list cstmt :=\n  fea_untranslated_ctx %s%%string statements_.")):
        try:
            out.append(target())
        except (Unknown, OSError, SyntaxError) as u:
            notes.append("%s: %s" % (name, u))
            out.append(fallback % coq_string(str(u)))
        out.append("")
    text = "\n".join(out)
    old = open(OUT).read() if os.path.exists(OUT) else None
    if old != text:
        os.makedirs(os.path.dirname(OUT), exist_ok=True)
        open(OUT, "w").write(text)
    for n in notes:
        print("UNTRANSLATED:", n)
    print("translated addLookupReferences, _contextAt; %d notes" % len(notes))
    return 0


if __name__ == "__main__":
    sys.exit(main())
