#!/usr/bin/env python3
"""Translate the numeric fallback functions of /repo's current Lib/ufo2ft/fontInfoData.py (parsed with `ast`, never
imported) into Gallina: coq/theories/Generated/InfoFallbacks.v.

What is translated
  * `getAttrWithFallback` -- its body must have the shape "explicit value unless missing / None, else the special
    fallback, else the static value" (compared structurally; anything else sets `tr_getattr_shape_ok := false`);
  * the `specialFallbacks` and `staticFallbackData` dictionaries (which attribute has which fallback);
  * the body of every special fallback function of the 13 vertical-metric attributes of `Info/Fallback.v`'s `info` record:
    local assignments, `getAttrWithFallback(info, "x")`, `otRound`, `int`, `max`, `abs`, `+ - *`, unary minus, integer and
    decimal literals (decimal literals become the EXACT rational they denote; IEEE rounding is the harness' float guard).

Fail-closed: an attribute, statement or expression outside that fragment becomes `tr_untranslated "<text>"`, a constant about
which nothing can be proved, so the theorems of Info/FallbackTied.v fail."""
import ast, os, sys
from fractions import Fraction

REPO = os.environ.get("UFO2FT_REPO", "/repo")
SRC = os.path.join(REPO, "Lib", "ufo2ft", "fontInfoData.py")
OUT = os.path.join(os.path.dirname(os.path.abspath(__file__)), "..", "coq", "theories", "Generated", "InfoFallbacks.v")

FIELDS = [("unitsPerEm", "i_upm"), ("ascender", "i_ascender"), ("descender", "i_descender"), ("capHeight", "i_capHeight"),
          ("xHeight", "i_xHeight"), ("openTypeOS2TypoAscender", "i_typoAsc"), ("openTypeOS2TypoDescender", "i_typoDesc"),
          ("openTypeOS2TypoLineGap", "i_typoGap"), ("openTypeHheaAscender", "i_hheaAsc"),
          ("openTypeHheaDescender", "i_hheaDesc"), ("openTypeHheaLineGap", "i_hheaGap"),
          ("openTypeOS2WinAscent", "i_winAsc"), ("openTypeOS2WinDescent", "i_winDesc")]
FIELD = dict(FIELDS)

GETATTR_SHAPE = """
def getAttrWithFallback(info, attr):
    if hasattr(info, attr) and getattr(info, attr) is not None:
        value = getattr(info, attr)
    else:
        if attr in specialFallbacks:
            value = specialFallbacks[attr](info)
        else:
            value = staticFallbackData[attr]
    return value
"""


class Unknown(Exception):
    pass


def strip_doc(body):
    if body and isinstance(body[0], ast.Expr) and isinstance(body[0].value, ast.Constant) and isinstance(body[0].value.value, str):
        return body[1:]
    return body


def coq_string(s):
    return '"' + s.replace('"', "'").replace("\n", " ")[:120] + '"'


def qlit(v):
    if isinstance(v, bool):
        raise Unknown("boolean literal")
    if isinstance(v, int):
        return "(zq (%d))" % v
    if isinstance(v, float):
        fr = Fraction(repr(v))          # the decimal the source text denotes
        return "(qq (%d) %d)" % (fr.numerator, fr.denominator)
    raise Unknown("literal %r" % (v,))


def expr(e, env, deps):
    """Python expression -> Gallina term of type Qc (over `i : info`)"""
    if isinstance(e, ast.Constant):
        return qlit(e.value)
    if isinstance(e, ast.Name):
        if e.id in env:
            return e.id + "_"
        raise Unknown("name " + e.id)
    if isinstance(e, ast.UnaryOp) and isinstance(e.op, ast.USub):
        if isinstance(e.operand, ast.Constant):
            return qlit(-e.operand.value)
        return "(- %s)" % expr(e.operand, env, deps)
    if isinstance(e, ast.BinOp) and isinstance(e.op, (ast.Add, ast.Sub, ast.Mult)):
        op = {ast.Add: "+", ast.Sub: "-", ast.Mult: "*"}[type(e.op)]
        return "(%s %s %s)" % (expr(e.left, env, deps), op, expr(e.right, env, deps))
    if isinstance(e, ast.Call) and isinstance(e.func, ast.Name) and not e.keywords:
        f, a = e.func.id, e.args
        if f == "getAttrWithFallback" and len(a) == 2 and isinstance(a[0], ast.Name) and a[0].id == "info" \
                and isinstance(a[1], ast.Constant) and isinstance(a[1].value, str):
            if a[1].value not in FIELD:
                raise Unknown("attribute " + a[1].value)
            deps.add(a[1].value)
            return "(tr_%s i)" % a[1].value
        if f == "otRound" and len(a) == 1:
            return "(zq (otRound %s))" % expr(a[0], env, deps)
        if f == "int" and len(a) == 1:
            return "(zq (ztrunc %s))" % expr(a[0], env, deps)
        if f == "abs" and len(a) == 1:
            return "(qc_abs %s)" % expr(a[0], env, deps)
        if f == "max" and len(a) == 2:
            return "(qmax %s %s)" % (expr(a[0], env, deps), expr(a[1], env, deps))
    raise Unknown("expression " + ast.unparse(e))


def function(fn, deps):
    """def f(info): ... -> Gallina term of type Qc"""
    if [a.arg for a in fn.args.args] != ["info"]:
        raise Unknown("signature of " + fn.name)
    env, lets = set(), []
    body = strip_doc(fn.body)
    for k, st in enumerate(body):
        if isinstance(st, ast.Expr) and isinstance(st.value, ast.Call) and isinstance(st.value.func, ast.Attribute) \
                and isinstance(st.value.func.value, ast.Name) and st.value.func.value.id == "logger":
            continue                                   # logging has no effect on the value
        if isinstance(st, ast.Assign) and len(st.targets) == 1 and isinstance(st.targets[0], ast.Name):
            lets.append("let %s_ := %s in" % (st.targets[0].id, expr(st.value, env, deps)))
            env.add(st.targets[0].id)
            continue
        if isinstance(st, ast.Return) and st.value is not None and k == len(body) - 1:
            return " ".join(lets + [expr(st.value, env, deps)])
        raise Unknown("statement " + ast.unparse(st))
    raise Unknown("no return in " + fn.name)


def main():
    tree = ast.parse(open(SRC).read())
    funcs = {n.name: n for n in tree.body if isinstance(n, ast.FunctionDef)}
    dicts = {}
    for n in tree.body:
        if isinstance(n, ast.Assign) and len(n.targets) == 1 and isinstance(n.targets[0], ast.Name) \
                and n.targets[0].id in ("specialFallbacks", "staticFallbackData") \
                and isinstance(n.value, ast.Call) and isinstance(n.value.func, ast.Name) and n.value.func.id == "dict":
            dicts[n.targets[0].id] = {kw.arg: kw.value for kw in n.value.keywords}
    notes = []
    shape_ok = False
    if "getAttrWithFallback" in funcs:
        got, want = funcs["getAttrWithFallback"], ast.parse(GETATTR_SHAPE).body[0]
        dump = lambda f: [ast.dump(f.args)] + [ast.dump(st) for st in strip_doc(f.body)]
        shape_ok = dump(got) == dump(want)
    if not shape_ok:
        notes.append("getAttrWithFallback has an unknown shape")
    special, static = dicts.get("specialFallbacks"), dicts.get("staticFallbackData")
    if special is None or static is None:
        notes.append("specialFallbacks / staticFallbackData not found")
        special, static = special or {}, static or {}

    # fallback term of every attribute + its dependencies
    terms, deps_of = {}, {}
    for attr, _ in FIELDS:
        deps = set()
        try:
            if attr in special:
                v = special[attr]
                if not (isinstance(v, ast.Name) and v.id in funcs):
                    raise Unknown("fallback of %s is %s" % (attr, ast.unparse(v)))
                terms[attr] = function(funcs[v.id], deps)
            elif attr in static:
                v = static[attr]
                if not isinstance(v, ast.Constant):
                    raise Unknown("static value of %s: %s" % (attr, ast.unparse(v)))
                terms[attr] = qlit(v.value)
            else:
                raise Unknown("%s has no fallback (a required attribute)" % attr)
        except Unknown as u:
            notes.append(str(u))
            terms[attr] = "(tr_untranslated %s%%string)" % coq_string(str(u))
            deps = set()
        deps_of[attr] = deps

    # emit in dependency order (the recursion through getAttrWithFallback must be well founded)
    order, done = [], set()
    while len(order) < len(FIELDS):
        ready = [a for a, _ in FIELDS if a not in done and deps_of[a] <= done]
        if not ready:
            for a, _ in FIELDS:
                if a not in done:
                    notes.append("cyclic fallback through " + a)
                    terms[a] = "(tr_untranslated %s%%string)" % coq_string("cyclic fallback through " + a)
                    deps_of[a] = set()
            continue
        for a in ready:
            order.append(a); done.add(a)

    out = ["(* GENERATED on every run by harness/info_from_source.py from Lib/ufo2ft/fontInfoData.py -- do not edit. *)",
           "From Coq Require Import QArith Qcanon String.",
           "From U2F Require Import Base.Prelude Geometry.Model Info.Fallback.",
           "Open Scope Qc_scope.",
           "",
           "(* a source construct outside the translated fragment: opaque, nothing can be proved about it *)",
           "Definition tr_untranslated (what : string) : Qc. Proof. exact qc0. Qed.",
           "",
           "(* getAttrWithFallback: explicit value unless missing / None, else special fallback, else static value *)",
           "Definition tr_getattr_shape_ok : bool := %s." % ("true" if shape_ok else "false"),
           ""]
    for a in order:
        out.append("Definition tr_%s (i : info) : Qc := dflt (%s i) (%s)." % (a, FIELD[a], terms[a]))
    out.append("")
    out.append("Definition tr_untranslated_count : nat := %d." % len(notes))
    open(OUT + ".tmp", "w").write("\n".join(out) + "\n")
    old = open(OUT).read() if os.path.exists(OUT) else None
    if old != "\n".join(out) + "\n":
        os.replace(OUT + ".tmp", OUT)
    else:
        os.remove(OUT + ".tmp")
    for n in notes:
        print("UNTRANSLATED:", n)
    print("translated %d attributes, %d notes" % (len(order), len(notes)))
    return 0


if __name__ == "__main__":
    sys.exit(main())
