"""A small GPOS/GDEF interpreter written from the OpenType specification (no
HarfBuzz binding is installed).  It answers: which lookups does a script's
default language system reach for a set of feature tags, what adjustment does
pair positioning give an ordered glyph pair, where does a mark attach, which
cursive anchors / GDEF classes / ligature carets does the font hold."""
from collections import OrderedDict


class Layout:
    def __init__(self, tt):
        self.tt = tt
        self.gpos = tt["GPOS"].table if "GPOS" in tt else None
        self.gdef = tt["GDEF"].table if "GDEF" in tt else None
        self.classes = {}
        if self.gdef is not None and self.gdef.GlyphClassDef is not None:
            self.classes = dict(self.gdef.GlyphClassDef.classDefs)
        self.mark_sets = []
        if self.gdef is not None and getattr(self.gdef, "MarkGlyphSetsDef", None):
            self.mark_sets = [set(c.glyphs) for c in self.gdef.MarkGlyphSetsDef.Coverage]

    # ---- script / feature structure
    def scripts(self):
        """{script tag: {lang tag ('dflt' for DefaultLangSys): [feature tags in FeatureIndex order]}}"""
        out = OrderedDict()
        if self.gpos is None or self.gpos.ScriptList is None:
            return out
        feats = self.gpos.FeatureList.FeatureRecord
        for sr in self.gpos.ScriptList.ScriptRecord:
            langs = OrderedDict()
            if sr.Script.DefaultLangSys is not None:
                langs["dflt"] = [feats[i].FeatureTag for i in sr.Script.DefaultLangSys.FeatureIndex]
            for lr in sr.Script.LangSysRecord:
                langs[lr.LangSysTag] = [feats[i].FeatureTag for i in lr.LangSys.FeatureIndex]
            out[sr.ScriptTag] = langs
        return out

    def lookups_for(self, script, tags, lang="dflt"):
        """lookup indices (ascending = application order) reached from script/lang for the feature tags"""
        if self.gpos is None or self.gpos.ScriptList is None:
            return []
        feats = self.gpos.FeatureList.FeatureRecord
        for sr in self.gpos.ScriptList.ScriptRecord:
            if sr.ScriptTag != script:
                continue
            ls = None
            if lang == "dflt":
                ls = sr.Script.DefaultLangSys
            else:
                for lr in sr.Script.LangSysRecord:
                    if lr.LangSysTag == lang:
                        ls = lr.LangSys
                if ls is None:
                    ls = sr.Script.DefaultLangSys
            if ls is None:
                return []
            idx = set()
            for fi in ls.FeatureIndex:
                if feats[fi].FeatureTag in tags:
                    idx.update(feats[fi].Feature.LookupListIndex)
            return sorted(idx)
        return []

    def subtables(self, li):
        lk = self.gpos.LookupList.Lookup[li]
        subs = []
        for st in lk.SubTable:
            if lk.LookupType == 9:
                subs.append((st.ExtensionLookupType, st.ExtSubTable))
            else:
                subs.append((lk.LookupType, st))
        return lk, subs

    def skipped(self, lk, glyph):
        """is `glyph` invisible to lookup lk (LookupFlag)?"""
        cls = self.classes.get(glyph, 0)
        flag = lk.LookupFlag
        if flag & 0x2 and cls == 1:
            return True
        if flag & 0x4 and cls == 2:
            return True
        if cls == 3:
            if flag & 0x8:
                return True
            if flag & 0x10:
                ms = self.mark_sets[lk.MarkFilteringSet] if lk.MarkFilteringSet is not None and lk.MarkFilteringSet < len(self.mark_sets) else set()
                if glyph not in ms:
                    return True
            mac = flag >> 8
            if mac:
                macd = self.gdef.MarkAttachClassDef.classDefs if self.gdef.MarkAttachClassDef else {}
                if macd.get(glyph, 0) != mac:
                    return True
        return False

    # ---- pair positioning
    def pair_adjust(self, lookups, g1, g2):
        """total (xAdvance, xPlacement) given to g1 when followed directly by g2, and how many lookups fired"""
        xadv = xpla = 0
        fired = 0
        nonzero = 0
        other = 0
        for li in lookups:
            lk, subs = self.subtables(li)
            if self.skipped(lk, g1) or self.skipped(lk, g2):
                continue
            for typ, st in subs:
                if typ != 2:
                    continue
                cov = st.Coverage.glyphs
                if g1 not in cov:
                    continue
                if st.Format == 1:
                    ps = st.PairSet[cov.index(g1)]
                    rec = next((r for r in ps.PairValueRecord if r.SecondGlyph == g2), None)
                    if rec is None:
                        continue          # subtable does not apply; try the next one
                    v1, v2 = rec.Value1, rec.Value2
                else:
                    c1 = st.ClassDef1.classDefs.get(g1, 0)
                    c2 = st.ClassDef2.classDefs.get(g2, 0)
                    if c1 >= st.Class1Count or c2 >= st.Class2Count:
                        continue
                    r = st.Class1Record[c1].Class2Record[c2]
                    v1, v2 = r.Value1, r.Value2
                if v1 is not None and ((getattr(v1, "XAdvance", 0) or 0) != 0 or (getattr(v1, "XPlacement", 0) or 0) != 0):
                    nonzero += 1
                if v1 is not None:
                    xadv += getattr(v1, "XAdvance", 0) or 0
                    xpla += getattr(v1, "XPlacement", 0) or 0
                    other += abs(getattr(v1, "YAdvance", 0) or 0) + abs(getattr(v1, "YPlacement", 0) or 0)
                if v2 is not None:
                    other += sum(abs(getattr(v2, a, 0) or 0) for a in ("XAdvance", "XPlacement", "YAdvance", "YPlacement"))
                fired += 1
                break                      # first applying subtable ends this lookup
        return xadv, xpla, nonzero, other

    # ---- mark attachment
    @staticmethod
    def _anchor(a):
        return None if a is None else (a.XCoordinate, a.YCoordinate)

    def mark_attach(self, lookups, base, mark, component=None):
        """offset (dx, dy) the mark is moved by to attach to base (component index for ligatures), or None.
        Later lookups replace earlier attachments."""
        res = None
        for li in lookups:
            lk, subs = self.subtables(li)
            if self.skipped(lk, mark) or self.skipped(lk, base):
                continue
            for typ, st in subs:
                if typ == 4 and component is None:
                    if mark in st.MarkCoverage.glyphs and base in st.BaseCoverage.glyphs:
                        mr = st.MarkArray.MarkRecord[st.MarkCoverage.glyphs.index(mark)]
                        ba = st.BaseArray.BaseRecord[st.BaseCoverage.glyphs.index(base)].BaseAnchor[mr.Class]
                        if ba is not None:
                            b, m = self._anchor(ba), self._anchor(mr.MarkAnchor)
                            res = (b[0] - m[0], b[1] - m[1], typ)
                            break
                elif typ == 5 and component is not None:
                    if mark in st.MarkCoverage.glyphs and base in st.LigatureCoverage.glyphs:
                        mr = st.MarkArray.MarkRecord[st.MarkCoverage.glyphs.index(mark)]
                        la = st.LigatureArray.LigatureAttach[st.LigatureCoverage.glyphs.index(base)]
                        if component < len(la.ComponentRecord):
                            ba = la.ComponentRecord[component].LigatureAnchor[mr.Class]
                            if ba is not None:
                                b, m = self._anchor(ba), self._anchor(mr.MarkAnchor)
                                res = (b[0] - m[0], b[1] - m[1], typ)
                                break
                elif typ == 6 and component is None:
                    if mark in st.Mark1Coverage.glyphs and base in st.Mark2Coverage.glyphs:
                        mr = st.Mark1Array.MarkRecord[st.Mark1Coverage.glyphs.index(mark)]
                        ba = st.Mark2Array.Mark2Record[st.Mark2Coverage.glyphs.index(base)].Mark2Anchor[mr.Class]
                        if ba is not None:
                            b, m = self._anchor(ba), self._anchor(mr.MarkAnchor)
                            res = (b[0] - m[0], b[1] - m[1], typ)
                            break
        return res

    def lig_component_count(self, lookups, lig):
        n = 0
        for li in lookups:
            lk, subs = self.subtables(li)
            for typ, st in subs:
                if typ == 5 and lig in st.LigatureCoverage.glyphs:
                    la = st.LigatureArray.LigatureAttach[st.LigatureCoverage.glyphs.index(lig)]
                    n = max(n, len(la.ComponentRecord))
        return n

    # ---- cursive
    def cursive(self, lookups=None):
        """[(lookup index, LookupFlag, {glyph: (entry or None, exit or None)})]"""
        out = []
        if self.gpos is None:
            return out
        rng = range(len(self.gpos.LookupList.Lookup)) if lookups is None else lookups
        for li in rng:
            lk, subs = self.subtables(li)
            recs = {}
            for typ, st in subs:
                if typ == 3:
                    for g, r in zip(st.Coverage.glyphs, st.EntryExitRecord):
                        recs[g] = (self._anchor(r.EntryAnchor), self._anchor(r.ExitAnchor))
            if recs:
                out.append((li, lk.LookupFlag, recs))
        return out

    # ---- GDEF
    def glyph_classes(self):
        return dict(self.classes)

    def lig_carets(self):
        out = {}
        if self.gdef is not None and self.gdef.LigCaretList is not None:
            lcl = self.gdef.LigCaretList
            for g, lg in zip(lcl.Coverage.glyphs, lcl.LigGlyph):
                out[g] = [(cv.Format, cv.Coordinate) for cv in lg.CaretValue]
        return out
