#!/usr/bin/env python3
"""Generate the sub-agent prompts of one seeding round (usage: mkprompts.py <round-dir> <k-previous>).
The prompt contains the property text and one-sentence summaries of the earlier seeded changes only --
nothing about how /verif checks anything."""
import json, os, sys
R = sys.argv[1]; K = int(sys.argv[2])
props = {}
for l in open('/verif/properties.jsonl'):
    d = json.loads(l); props[d['id']] = d
T = '''You are helping test a verification harness by producing a realistic regression ("seeded defect") in the Python library googlefonts/ufo2ft.

Work ONLY inside the git worktree {R}/{P} (a checkout of the library; source under {R}/{P}/Lib/ufo2ft, tests under {R}/{P}/tests). Do not read or write anything under /verif or /repo. Use the interpreter /venv/bin/python and ALWAYS run with the environment variable PYTHONPATH={R}/{P}/Lib so that your worktree's code is what gets imported (check with: PYTHONPATH={R}/{P}/Lib /venv/bin/python -c "import ufo2ft; print(ufo2ft.__file__)"). There is no network.

The property of ufo2ft that your change must BREAK:

  Title: {title}
  Statement: {statement}
  Quantified over: {quant}

IMPORTANT: {K} previous attempts already made the changes below, so do something DIFFERENT from all of them (a different function and a different mechanism; look for a clause of the property's statement or a code path that none of them touches -- other public compile functions, other options and their defaults, other table builders, other filters/writers, interactions between two features, the variable / interpolatable / designspace paths, less common but valid inputs):
{prev}
Also prefer a change whose trigger is a different kind of input than those.

Your task:
1. Read the relevant source and make ONE small, realistic change to the library code under {R}/{P}/Lib/ufo2ft (the kind of slip a maintainer could make in a refactor or "optimisation": an off-by-one, a wrong comparison, a dropped sort/copy/reversal, a swapped argument, a condition that is slightly too narrow or too wide, two sites that each look fine alone ...) that makes the property false.
2. The change must NOT be exposed by ordinary use at once: it should need something specific to manifest -- an unusual but valid input (e.g. a particular combination of values, a nested or mirrored structure, a boundary value, glyph names or code points with a special shape, a specific option combination), a multi-step sequence of calls, or two cooperating sites. Avoid changes that break every font.
3. The library must still import and the EXISTING test suite must still pass with your change: run
     cd {R}/{P} && PYTHONPATH={R}/{P}/Lib /venv/bin/python -m pytest -q -p no:cacheprovider -x tests 2>&1 | tail -5
   (takes about 30 s; 1148 tests). If tests fail, pick a different change.
4. Write a demonstration script {R}/{P}/_seed/demo.py (plain Python, no pytest needed, exit code 0 = property holds, exit code 1 = property violated, printing what it observed) that builds its input in memory (ufoLib2 or defcon fonts, or loads fixtures from {R}/{P}/tests/data), exercises the public API, and FAILS (exit 1) with your change and PASSES (exit 0) on the unchanged code. Verify both: run it with your change applied, then `git -C {R}/{P} diff > {R}/{P}/_seed/x.diff && git -C {R}/{P} checkout -- Lib`, run it again on the original code, then re-apply your change with `git -C {R}/{P} apply {R}/{P}/_seed/x.diff`.
5. Save the final patch as {R}/{P}/_seed/patch.diff (output of `git -C {R}/{P} diff -- Lib`) and a short {R}/{P}/_seed/meta.json with keys: "property" ("{P}"), "summary" (one sentence: what was changed), "needs" (what specific input / sequence / option is needed for the defect to manifest), "demo_fails_with_patch" (true/false as you observed), "demo_passes_without_patch" (true/false), "tests_pass_with_patch" (true/false, with the summary line of pytest).
Leave the worktree with your change APPLIED at the end.

Report back (briefly): the diff, what is needed to trigger it, and the three observations of step 5. Do not try several properties; only this one. Keep the change to a few lines.

Separately, and only as a by-product: if while reading the code you notice that the UNCHANGED library already seems to violate the property for some valid input (or raises where it should not), describe that input in two or three sentences at the very end of your report under the heading "Observation about the unchanged code". Do not spend more than a few minutes on this and do not let it replace the task above.
'''
for P in sorted(props):
    prev = []
    for k in range(1, K + 1):
        m = json.load(open('/verif/seeded/%s-sub%d/meta.json' % (P, k)))
        prev.append('  %d. "%s"' % (k, m['summary'].replace('\n', ' ')))
    d = props[P]
    open('%s/prompt_%s.txt' % (R, P), 'w').write(
        T.format(R=R, P=P, K=K, title=d['title'], statement=d['statement'], quant=d['quantifier']['text'], prev="\n".join(prev)))
print(len(props))
