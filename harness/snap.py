"""Deep structural snapshots of UFO fonts, glyph sets and designspace documents
(plain comparable data), used by C07, C08 and C14."""
from fractions import Fraction as Fr


def _plain(o):
    if isinstance(o, dict):
        return {str(k): _plain(v) for k, v in o.items()}
    if isinstance(o, (list, tuple)):
        return [_plain(x) for x in o]
    if isinstance(o, (set, frozenset)):
        return sorted(_plain(x) for x in o)
    if isinstance(o, bytes):
        return o.hex()
    if isinstance(o, (int, float, str, bool)) or o is None:
        return o
    return repr(o)


def glyph_snapshot(g):
    from fontTools.pens.recordingPen import RecordingPointPen
    rec = RecordingPointPen()
    g.drawPoints(rec)
    ops = []
    for op, args, kw in rec.value:
        if op == "addPoint":
            pt, st, sm, nm = args[0], args[1], args[2], args[3]
            ops.append(("pt", float(pt[0]), float(pt[1]), st, bool(sm), nm, kw.get("identifier")))
        elif op == "addComponent":
            ops.append(("comp", args[0], tuple(float(v) for v in args[1]), kw.get("identifier")))
        else:
            ops.append((op, kw.get("identifier")))
    return {
        "ops": ops,
        "width": g.width, "height": g.height,
        "unicodes": list(g.unicodes),
        "anchors": [(a.name, a.x, a.y, getattr(a, "identifier", None)) for a in g.anchors],
        "lib": _plain(dict(g.lib)),
    }


def glyphset_snapshot(gs):
    return {n: glyph_snapshot(gs[n]) for n in gs.keys()}


def font_snapshot(font):
    layers = {}
    for layer in font.layers:
        layers[layer.name] = {"glyphs": {g.name: glyph_snapshot(g) for g in layer},
                              "lib": _plain(dict(layer.lib)), "order": [g.name for g in layer]}
    info = {}
    from fontTools.ufoLib import fontInfoAttributesVersion3
    for a in sorted(fontInfoAttributesVersion3):
        v = getattr(font.info, a, None)
        if v is not None:
            info[a] = _plain(v) if not hasattr(v, "__dict__") else repr(v)
    return {
        "layers": layers,
        "layer_order": [l.name for l in font.layers],
        "default_layer": font.layers.defaultLayer.name,
        "lib": _plain(dict(font.lib)),
        "info": info,
        "kerning": sorted((a, b, v) for (a, b), v in font.kerning.items()),
        "groups": {k: list(v) for k, v in font.groups.items()},
        "features": font.features.text,
        "glyphOrder": list(font.glyphOrder),
    }


def designspace_snapshot(ds):
    def src(s):
        return {"name": s.name, "filename": s.filename, "path": s.path, "layerName": s.layerName,
                "location": dict(s.location), "familyName": s.familyName, "styleName": s.styleName,
                "font_id": id(s.font)}
    return {
        "axes": [(a.name, a.tag, a.minimum, a.default, a.maximum, list(a.map or [])) for a in ds.axes],
        "sources": [src(s) for s in ds.sources],
        "instances": [(i.name, i.familyName, i.styleName, dict(i.location or {})) for i in ds.instances],
        "rules": [(r.name, _plain(r.conditionSets), list(r.subs)) for r in ds.rules],
        "lib": _plain(dict(ds.lib)),
        "variableFonts": [(v.name, _plain(dict(v.lib or {})), [repr(a) for a in (v.axisSubsets or [])], v.filename)
                          for v in getattr(ds, "variableFonts", [])],
        "formatVersion": getattr(ds, "formatVersion", None),
        "axisMappings": [repr(m) for m in getattr(ds, "axisMappings", [])],
        "locationLabels": [repr(l) for l in getattr(ds, "locationLabels", [])],
    }


def diff(a, b, path=""):
    """first few differing paths between two snapshots"""
    out = []
    if type(a) != type(b):
        return ["%s: %r -> %r" % (path, a, b)]
    if isinstance(a, dict):
        for k in sorted(set(a) | set(b), key=str):
            if k not in a:
                out.append("%s/%s: added %r" % (path, k, b[k] if not isinstance(b[k], dict) else "{...}"))
            elif k not in b:
                out.append("%s/%s: removed" % (path, k))
            else:
                out.extend(diff(a[k], b[k], "%s/%s" % (path, k)))
            if len(out) > 8:
                break
    elif isinstance(a, list):
        if len(a) != len(b):
            out.append("%s: length %d -> %d" % (path, len(a), len(b)))
        else:
            for i, (x, y) in enumerate(zip(a, b)):
                out.extend(diff(x, y, "%s[%d]" % (path, i)))
                if len(out) > 8:
                    break
    elif a != b:
        out.append("%s: %r -> %r" % (path, a, b))
    return out
