#!/usr/bin/env python3
"""Translate OTFPreProcessor.initDefaultFilters and TTFPreProcessor.initDefaultFilters of /repo's current source
(Lib/ufo2ft/preProcessor.py, parsed with `ast`, never imported) into Gallina functions from the option record of
Filters/Pipeline.v to the list of default filter calls: coq/theories/Generated/Pipelines.v.

Fail-closed: a statement shape, an expression or a filter class the translator does not know is emitted as an
UnknownFilter call (and listed on stdout), so the shape theorems of Filters/PipelineProofs.v cannot be proved of it."""
import ast, json, os, sys

REPO = os.environ.get("UFO2FT_REPO", "/repo")
SRC = os.path.join(REPO, "Lib", "ufo2ft", "preProcessor.py")
OUT = os.path.join(os.path.dirname(os.path.abspath(__file__)), "..", "coq", "theories", "Generated", "Pipelines.v")

KINDS = {"ExplodeColorLayerGlyphsFilter": "ExplodeColorLayerGlyphs", "DecomposeComponentsFilter": "DecomposeComponents",
         "FlattenComponentsFilter": "FlattenComponents", "RemoveOverlapsFilter": "RemoveOverlaps",
         "CubicToQuadraticFilter": "CubicToQuadratic", "ReverseContourDirectionFilter": "ReverseContourDirection"}
KEYS = {"backend": "K_backend", "include": "K_include", "conversionError": "K_conversionError",
        "reverseDirection": "K_reverseDirection", "rememberCurveType": "K_rememberCurveType", "allQuadratic": "K_allQuadratic"}
BOOL_OPTS = {"removeOverlaps", "flattenComponents", "convertCubics", "allQuadratic", "reverseDirection", "rememberCurveType"}
SET_OPTS = {"overlapsBackend": "overlapsBackend_set", "conversionError": "conversionError_set"}
EXPLODE_HELPER = "_init_explode_color_layer_glyphs_filter"


class Unknown(Exception):
    pass


def bexpr(e):
    """Python expression -> Gallina bool over the option record `o`"""
    if isinstance(e, ast.Name) and e.id in BOOL_OPTS:
        return "(%s o)" % e.id
    if isinstance(e, ast.Attribute) and isinstance(e.value, ast.Name) and e.value.id == "self" and e.attr == "inplace":
        return "(inplace o)"
    if isinstance(e, ast.Constant) and isinstance(e.value, bool):
        return "true" if e.value else "false"
    if isinstance(e, ast.BoolOp):
        op = "andb" if isinstance(e.op, ast.And) else "orb"
        parts = [bexpr(v) for v in e.values]
        out = parts[0]
        for p in parts[1:]:
            out = "(%s %s %s)" % (op, out, p)
        return out
    if isinstance(e, ast.UnaryOp) and isinstance(e.op, ast.Not):
        return "(negb %s)" % bexpr(e.operand)
    if isinstance(e, ast.Compare) and len(e.ops) == 1 and isinstance(e.left, ast.Name) and e.left.id in SET_OPTS \
            and isinstance(e.comparators[0], ast.Constant) and e.comparators[0].value is None:
        f = "(%s o)" % SET_OPTS[e.left.id]
        if isinstance(e.ops[0], ast.IsNot):
            return f
        if isinstance(e.ops[0], ast.Is):
            return "(negb %s)" % f
    raise Unknown("condition " + ast.unparse(e))


def aexpr(e):
    try:
        return "(AB %s)" % bexpr(e)
    except Unknown:
        return "AOpaque"          # a value that is not a boolean of the option record (a lambda, a number, a backend name)


def call(e, unknown):
    """Cls(kw=...) -> Gallina fcall"""
    if not (isinstance(e, ast.Call) and isinstance(e.func, ast.Name) and e.func.id in KINDS and not e.args):
        unknown.append("filter construction " + ast.unparse(e))
        return "(UnknownFilter, [])"
    args = []
    for kw in e.keywords:
        if kw.arg is None:
            unknown.append("**kwargs in " + ast.unparse(e))
            return "(UnknownFilter, [])"
        args.append("(%s, %s)" % (KEYS.get(kw.arg, "K_other"), aexpr(kw.value)))
    return "(%s, [%s])" % (KINDS[e.func.id], "; ".join(args))


def block(stmts, var, unknown):
    """statement list -> Gallina expression of type list fcall (what the statements append to `var`)"""
    parts = []
    for st in stmts:
        if isinstance(st, (ast.ImportFrom, ast.Import, ast.Pass)):
            continue
        if isinstance(st, ast.Expr) and isinstance(st.value, ast.Constant) and isinstance(st.value.value, str):
            continue
        if isinstance(st, ast.Expr) and isinstance(st.value, ast.Call):
            c = st.value
            if isinstance(c.func, ast.Attribute) and c.func.attr == "append" and isinstance(c.func.value, ast.Name) \
                    and c.func.value.id == var and len(c.args) == 1 and not c.keywords:
                parts.append("[%s]" % call(c.args[0], unknown))
                continue
            if isinstance(c.func, ast.Name) and c.func.id == EXPLODE_HELPER and len(c.args) == 2 \
                    and isinstance(c.args[1], ast.Name) and c.args[1].id == var:
                parts.append("explode_helper o")
                continue
        if isinstance(st, ast.If):
            try:
                cond = bexpr(st.test)
            except Unknown as e:
                unknown.append(str(e))
                parts.append("[(UnknownFilter, [])]")
                continue
            parts.append("(if %s then %s else %s)" % (cond, block(st.body, var, unknown), block(st.orelse, var, unknown)))
            continue
        unknown.append("statement " + ast.unparse(st)[:120])
        parts.append("[(UnknownFilter, [])]")
    return "(" + " ++ ".join(parts) + ")" if parts else "[]"


def function(tree, cls, name, unknown):
    for node in tree.body:
        if isinstance(node, ast.ClassDef) and node.name == cls:
            for f in node.body:
                if isinstance(f, ast.FunctionDef) and f.name == name:
                    body = list(f.body)
                    # filters = [] ... return filters
                    if not (body and isinstance(body[0], ast.Assign) and isinstance(body[0].targets[0], ast.Name)
                            and isinstance(body[0].value, ast.List) and not body[0].value.elts):
                        unknown.append("%s.%s does not start with `filters = []`" % (cls, name)); return "[(UnknownFilter, [])]"
                    var = body[0].targets[0].id
                    if not (isinstance(body[-1], ast.Return) and isinstance(body[-1].value, ast.Name) and body[-1].value.id == var):
                        unknown.append("%s.%s does not end with `return %s`" % (cls, name, var)); return "[(UnknownFilter, [])]"
                    # the declared defaults of the keyword arguments are part of the function: emitted separately
                    return block(body[1:-1], var, unknown)
    unknown.append("%s.%s not found" % (cls, name))
    return "[(UnknownFilter, [])]"


def helper(tree, unknown):
    """_init_explode_color_layer_glyphs_filter(ufo, filters): one `if <condition on the ufo's lib>: filters.append(Explode...())`;
    the condition is the option record's color_font bit"""
    for node in tree.body:
        if isinstance(node, ast.FunctionDef) and node.name == EXPLODE_HELPER:
            body = [s for s in node.body if not (isinstance(s, ast.Expr) and isinstance(s.value, ast.Constant))]
            if len(body) == 1 and isinstance(body[0], ast.If) and not body[0].orelse:
                inner = block(body[0].body, node.args.args[1].arg, unknown)
                return "(if color_font o then %s else [])" % inner
    unknown.append(EXPLODE_HELPER + " has an unexpected shape")
    return "[(UnknownFilter, [])]"


def defaults(tree, cls, name):
    out = {}
    for node in tree.body:
        if isinstance(node, ast.ClassDef) and node.name == cls:
            for f in node.body:
                if isinstance(f, ast.FunctionDef) and f.name == name:
                    args = f.args.args[1:]
                    for a, d in zip(args[len(args) - len(f.args.defaults):], f.args.defaults):
                        out[a.arg] = d.value if isinstance(d, ast.Constant) else "?"
    return out


def main():
    tree = ast.parse(open(SRC, encoding="utf-8").read())
    unknown = []
    L = ["(* GENERATED by harness/pipeline_from_source.py from /repo/Lib/ufo2ft/preProcessor.py -- do not edit. *)",
         "From U2F Require Import Base.Prelude Filters.Pipeline.", "",
         "Definition explode_helper (o : popts) : list fcall := %s." % helper(tree, unknown), "",
         "(* OTFPreProcessor.initDefaultFilters *)",
         "Definition otf_default_filters (o : popts) : list fcall :=\n  %s." % function(tree, "OTFPreProcessor", "initDefaultFilters", unknown), "",
         "(* TTFPreProcessor.initDefaultFilters *)",
         "Definition ttf_default_filters (o : popts) : list fcall :=\n  %s." % function(tree, "TTFPreProcessor", "initDefaultFilters", unknown), ""]
    # the declared defaults of the options (what a caller who passes nothing gets)
    dt = defaults(tree, "TTFPreProcessor", "initDefaultFilters")
    do = defaults(tree, "OTFPreProcessor", "initDefaultFilters")
    b = lambda v: "true" if v is True else "false"
    L.append("(* declared defaults of the keyword arguments (inplace and color_font are not arguments: false) *)")
    for nm, d in (("otf_defaults", do), ("ttf_defaults", dt)):
        L.append("Definition %s : popts := mkPO %s %s %s %s %s %s %s %s false false." % (
            nm, b(d.get("removeOverlaps")), b(d.get("overlapsBackend") is not None), b(d.get("flattenComponents")),
            b(d.get("convertCubics", True if nm == "otf_defaults" else None)), b(d.get("conversionError") is not None),
            b(d.get("allQuadratic", True if nm == "otf_defaults" else None)),
            b(d.get("reverseDirection", True if nm == "otf_defaults" else None)),
            b(d.get("rememberCurveType", True if nm == "otf_defaults" else None))))
    text = "\n".join(L) + "\n"
    old = open(OUT).read() if os.path.exists(OUT) else None
    if old != text:
        os.makedirs(os.path.dirname(OUT), exist_ok=True)
        with open(OUT, "w") as f:
            f.write(text)
    json.dump({"unrecognised": unknown}, sys.stdout)
    print()


if __name__ == "__main__":
    main()
