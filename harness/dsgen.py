"""Generated designspaces: families of point-compatible masters (perturbations of one
random master) as in-memory DesignSpaceDocument objects with source fonts attached."""
from fractions import Fraction as Fr
from harness.fonts import build_font, gen_component_font, rand_names


def perturb(rng, desc, k, amount=60, kern=True):
    """master k of a family: same structure, integer-shifted coordinates / offsets / widths / anchors"""
    out = {"glyphs": [], "glyphOrder": desc.get("glyphOrder"), "groups": dict(desc.get("groups", {})),
           "kerning": {}, "features": desc.get("features", ""), "lib": dict(desc.get("lib", {})),
           "info": dict(desc.get("info", {}))}
    for g in desc["glyphs"]:
        g2 = dict(g)
        g2["contours"] = [[(x + rng.randint(-amount, amount), y + rng.randint(-amount, amount), t) for x, y, t in c]
                          for c in g["contours"]]
        g2["components"] = [(b, tuple(t[:4]) + (t[4] + rng.randint(-amount, amount), t[5] + rng.randint(-amount, amount)))
                            for b, t in g["components"]]
        g2["anchors"] = [(n, x + rng.randint(-amount, amount), y + rng.randint(-amount, amount)) for n, x, y in g.get("anchors", [])]
        # zero-width glyphs (marks) stay zero-width in every master
        g2["width"] = Fr(0) if Fr(g["width"]) == 0 else max(Fr(1), Fr(g["width"]) + rng.randint(0, amount))
        out["glyphs"].append(g2)
    for key, v in desc.get("kerning", {}).items():
        out["kerning"][key] = v + rng.randint(-20, 20) if kern else v
    out["info"]["styleName"] = "Master%d" % k
    return out


def base_master(rng, n=None, kinds=("line", "curve"), anchors=True, classes=None, max_depth=2, int_coords=True):
    desc = gen_component_font(rng, n=n or rng.randint(4, 8), kinds=kinds, anchors=anchors, max_depth=max_depth,
                              classes=classes or ["identity", "scale", "shear", "mirror_x", "general_small"], widths="int")
    for i, g in enumerate(desc["glyphs"]):
        g["unicodes"] = [0x61 + i]
        if int_coords:
            g["contours"] = [[(Fr(round(x)), Fr(round(y)), t) for x, y, t in c] for c in g["contours"]]
            g["components"] = [(b, tuple(t[:4]) + (Fr(round(t[4])), Fr(round(t[5])))) for b, t in g["components"]]
            g["anchors"] = [(nm, Fr(round(x)), Fr(round(y))) for nm, x, y in g["anchors"]]
    names = [g["name"] for g in desc["glyphs"]]
    desc["kerning"] = {(names[0], names[1]): Fr(-40), (names[1], names[0]): Fr(25)}
    desc["glyphOrder"] = list(names)
    desc["info"] = {"familyName": "Fam", "styleName": "Master0", "unitsPerEm": 1000, "ascender": 800, "descender": -200,
                    "xHeight": 500, "capHeight": 700}
    return desc


def make_designspace(rng, masters, lib="ufoLib2", axes=None, locations=None, instances=True, vf_info=None):
    """masters: list of descs.  One 'Weight' axis unless axes/locations are given.
    vf_info: list of public.fontInfo override dicts -> a format-5 document with one <variable-font> per dict."""
    from fontTools.designspaceLib import DesignSpaceDocument, AxisDescriptor, SourceDescriptor, InstanceDescriptor
    ds = DesignSpaceDocument()
    if axes is None:
        a = AxisDescriptor()
        a.name, a.tag, a.minimum, a.default, a.maximum = "Weight", "wght", 100, 100, 900
        ds.addAxis(a)
        n = len(masters)
        locations = [{"Weight": 100 + (800 * i) // max(1, n - 1)} for i in range(n)]
    else:
        for name, tag, lo, df, hi in axes:
            a = AxisDescriptor()
            a.name, a.tag, a.minimum, a.default, a.maximum = name, tag, lo, df, hi
            ds.addAxis(a)
    fonts = []
    for i, (m, loc) in enumerate(zip(masters, locations)):
        f = build_font(m, lib)
        fonts.append(f)
        s = SourceDescriptor()
        s.font = f
        s.location = dict(loc)
        s.familyName = "Fam"
        s.styleName = "Master%d" % i
        s.name = "master.%d" % i
        ds.addSource(s)
    if instances:
        inst = InstanceDescriptor()
        inst.familyName, inst.styleName = "Fam", "Inst"
        inst.location = dict(locations[-1]) if len(locations) == 1 else {k: (locations[0][k] + locations[-1][k]) / 2 for k in locations[0]}
        inst.name = "inst0"
        ds.addInstance(inst)
    if vf_info:
        from fontTools.designspaceLib import VariableFontDescriptor, RangeAxisSubsetDescriptor
        ds.formatVersion = "5.0"
        for k, ov in enumerate(vf_info):
            ds.addVariableFont(VariableFontDescriptor(name="VF%d" % k,
                                                      axisSubsets=[RangeAxisSubsetDescriptor(name=a.name) for a in ds.axes],
                                                      lib={"public.fontInfo": dict(ov)} if ov is not None else {}))
    return ds, fonts


def family(rng, nmasters=2, lib="ufoLib2", vf_info=None, **kw):
    base = base_master(rng, **kw)
    masters = [base] + [perturb(rng, base, k) for k in range(1, nmasters)]
    ds, fonts = make_designspace(rng, masters, lib, vf_info=vf_info)
    return ds, fonts, masters
