"""Runs in a fresh interpreter (its own PYTHONHASHSEED): builds the same sources from a seed, compiles
them through several call histories and prints one JSON object {case id: sha256 of saved bytes}."""
import hashlib, io, json, logging, os, random, shutil, sys, tempfile
logging.disable(logging.CRITICAL)
HERE = os.path.dirname(os.path.dirname(os.path.abspath(__file__)))
sys.path.insert(0, HERE)
from fractions import Fraction as Fr
from harness import dsgen
from harness.fonts import build_font, gen_component_font


def sha(tt):
    """hash of the saved font; `tt` may be a thunk: an exception is an outcome too (the same in every interpreter and for
    every history, or the property is violated), not a reason for the worker to die"""
    try:
        if callable(tt):
            tt = tt()
        b = io.BytesIO()
        tt.save(b)
        return hashlib.sha256(b.getvalue()).hexdigest()
    except Exception as e:
        return "raised %s: %s" % (type(e).__name__, str(e)[:200])


def static_desc(rng, path_graph=False):
    desc = gen_component_font(rng, n=rng.randint(5, 9), kinds=("line", "curve"), anchors=True, max_depth=3,
                              classes=["identity", "scale", "shear", "mirror_x", "general_small"])
    names = [g["name"] for g in desc["glyphs"]]
    cps = [0x41, 0x56, 0x61, 0x6F, 0x430, 0x3B1, 0x627, 0x5D0, 0x301, 0x2E]
    for k, g in enumerate(desc["glyphs"]):
        g["unicodes"] = [cps[k % len(cps)] + (k // len(cps))]
    desc["groups"] = {"public.kern1.L": names[:2], "public.kern2.R": names[2:4], "public.kern1.M": names[4:5]}
    desc["kerning"] = {("public.kern1.L", "public.kern2.R"): Fr(-30), (names[0], names[2]): Fr(7), (names[1], "public.kern2.R"): Fr(-12),
                       ("public.kern1.M", names[0]): Fr(15), (names[3], names[4]): Fr(-5)}
    # kerning of several scripts whose first appearance in the kerning data is NOT in alphabetical script order (Greek, then
    # Cyrillic, then Latin): a saved-and-reopened font lists its pairs sorted, the in-memory one as inserted
    for k, (nm, cp) in enumerate([("kx.beta", 0x3B2), ("kx.gamma", 0x3B3), ("kx.be-cy", 0x431), ("kx.ve-cy", 0x432), ("kx.x", 0x78), ("kx.y", 0x79)]):
        desc["glyphs"].append({"name": nm, "unicodes": [cp], "width": 500, "contours": [], "components": [], "anchors": []})
    desc["kerning"] = dict([(("kx.beta", "kx.gamma"), Fr(-21)), (("kx.be-cy", "kx.ve-cy"), Fr(-22))] + list(desc["kerning"].items()) + [(("kx.x", "kx.y"), Fr(-23))])
    desc["lib"] = {"public.openTypeCategories": {names[-1]: "mark", names[0]: "base"},
                   "com.github.googlei18n.ufo2ft.filters": [{"name": "propagateAnchors", "pre": True}]}
    desc["features"] = "languagesystem DFLT dflt;\nlanguagesystem latn dflt;\n"
    # marks whose classes conflict pairwise (the grouping of mark classes is a graph colouring)
    # (a random conflict graph per font: chains such as a-b, c-d, b-c are where a greedy colouring depends on the visiting order)
    keys = ["top", "bottom", "ogonek", "cedilla", "ring", "horn"]
    allpairs = [(a, b) for a in range(len(keys)) for b in range(a + 1, len(keys))]
    edges = rng.sample(allpairs, rng.randint(3, 6)) if rng.random() < 0.8 else [(0, 1), (1, 2), (2, 0), (3, 4), (4, 0), (2, 3)]
    if path_graph:
        # the first font of every run: three 4-chains of mark classes p-q-r-s, each built so that a greedy colouring that
        # visits the classes in first-seen order meets the chain's ends before its middle (marks A:_p,_q  B:_r,_s  C:_q,_r;
        # base anchors in the order p, s, q, r): 2 or 3 lookups depending on the iteration order of two-element sets
        keys = ["top", "bottom", "ogonek", "cedilla", "ring", "horn", "nukta", "dot", "hook", "bar", "tail", "loop"]
        rng.shuffle(keys)
        edges = []
        for c in range(3):
            p_, q_, r_, s_ = range(4 * c, 4 * c + 4)
            edges += [(p_, q_), (r_, s_), (q_, r_)]
    if not path_graph:
        rng.shuffle(keys)
    for k, (a, b) in enumerate(edges):
        desc["glyphs"].append({"name": "mk%d" % k, "unicodes": [0x300 + k + 16], "width": 0, "contours": [], "components": [],
                               "anchors": [("_" + keys[a], Fr(10 * k), Fr(500)), ("_" + keys[b], Fr(0), Fr(-20 - k)),
                                           (keys[(a + 2) % len(keys)], Fr(5), Fr(700 + k))]})
    base_order = list(keys) if not path_graph else [keys[4 * c + o] for c in range(3) for o in (0, 3, 1, 2)]
    desc["glyphs"].append({"name": "basemk", "unicodes": [0x65], "width": 500, "contours": [], "components": [],
                           "anchors": [(kk, Fr(100 + 7 * j), Fr(600 - 50 * j)) for j, kk in enumerate(base_order)]})
    # a contextual anchor: "*<key>" with an identifier that keys a GPOS_Context entry in the glyph's public.objectLibs
    bm = desc["glyphs"][-1]
    bm["anchors"].append(("*" + keys[0], Fr(140), Fr(650), "CTX-ANCHOR-1"))
    bm["lib"] = {"public.objectLibs": {"CTX-ANCHOR-1": {"GPOS_Context": "%s *" % names[0]}}}
    names = [g["name"] for g in desc["glyphs"]]
    desc["lib"]["public.openTypeCategories"].update({n: "mark" for n in names if n.startswith("mk")})
    desc["lib"]["public.openTypeCategories"]["basemk"] = "base"
    # an explicit public.glyphOrder: without one the two UFO libraries report different orders for an
    # in-memory font (defcon: creation order, ufoLib2: none), which is a difference of source content
    desc["glyphOrder"] = sorted(names)
    # vertical metrics with explicit vertical origins on exactly half of the glyphs (counting the generated .notdef):
    # two origins are equally frequent, so VORG's default is decided by the order of counting (fixed finding F18)
    desc["info"] = dict(desc.get("info", {}), openTypeVheaVertTypoAscender=500, openTypeVheaVertTypoDescender=-500,
                        openTypeVheaVertTypoLineGap=0)
    if (len(names) + 1) % 2 == 0:
        for nm in rng.sample(names, (len(names) + 1) // 2):
            next(g for g in desc["glyphs"] if g["name"] == nm).setdefault("lib", {})["public.verticalOrigin"] = 880
    return desc


def main():
    seed, n, mode = int(sys.argv[1]), int(sys.argv[2]), sys.argv[3]
    import ufo2ft
    out = {}
    rng = random.Random(seed)
    os.makedirs(os.path.join(HERE, ".work"), exist_ok=True)
    work = tempfile.mkdtemp(prefix="c08-", dir=os.path.join(HERE, ".work"))
    try:
        for i in range(n):
            desc = static_desc(rng, path_graph=(i == 0))
            for lib in ("ufoLib2", "defcon"):
                f = build_font(desc, lib)
                out["static%d/%s/ttf" % (i, lib)] = sha(lambda: ufo2ft.compileTTF(f))
                from ufo2ft.featureWriters import KernFeatureWriter, MarkFeatureWriter, GdefFeatureWriter, CursFeatureWriter
                out["static%d/%s/ttf-grouped-marks" % (i, lib)] = sha(lambda: ufo2ft.compileTTF(build_font(desc, lib), featureWriters=[
                    KernFeatureWriter, MarkFeatureWriter(groupMarkClasses=True), GdefFeatureWriter, CursFeatureWriter]))
                out["static%d/%s/otf-after-ttf" % (i, lib)] = sha(lambda: ufo2ft.compileOTF(f))
                out["static%d/%s/ttf-second" % (i, lib)] = sha(lambda: ufo2ft.compileTTF(f))
                g = build_font(desc, lib)
                out["static%d/%s/otf-first" % (i, lib)] = sha(lambda: ufo2ft.compileOTF(g))
                out["static%d/%s/ttf-after-otf" % (i, lib)] = sha(lambda: ufo2ft.compileTTF(g))
                h = build_font(desc, lib)
                out["static%d/%s/ttf-inplace" % (i, lib)] = sha(lambda: ufo2ft.compileTTF(h, inplace=True))
                # fonts of other styles compiled in between (bold italic, italic, bold: each takes another branch of the style
                # mapping code) must leave nothing behind in the process: the first font compiles as before
                for style in ("Bold Italic", "Italic", "Bold"):
                    d2 = dict(desc, info=dict(desc.get("info", {}), styleName=style))
                    sha(lambda: ufo2ft.compileTTF(build_font(d2, lib)))
                    sha(lambda: ufo2ft.compileOTF(build_font(d2, lib)))
                out["static%d/%s/ttf-after-other-styles" % (i, lib)] = sha(lambda: ufo2ft.compileTTF(build_font(desc, lib)))
                # an EMPTY non-default layer of the same font object compiled first (TTF and OTF): nothing of it may stay behind
                e = build_font(desc, lib)
                e.newLayer("sketches")
                sha(lambda: ufo2ft.compileTTF(e, layerName="sketches"))
                sha(lambda: ufo2ft.compileOTF(e, layerName="sketches"))
                out["static%d/%s/ttf-after-empty-layer" % (i, lib)] = sha(lambda: ufo2ft.compileTTF(e))
                if mode == "thorough" or i == 0:
                    p = os.path.join(work, "f%d-%s.ufo" % (i, lib))
                    build_font(desc, lib).save(p)
                    if lib == "ufoLib2":
                        import ufoLib2
                        r = ufoLib2.Font.open(p)
                    else:
                        import defcon
                        r = defcon.Font(p)
                    out["static%d/%s/ttf-reloaded" % (i, lib)] = sha(lambda: ufo2ft.compileTTF(r))
                    out["static%d/%s/otf-reloaded" % (i, lib)] = sha(lambda: ufo2ft.compileOTF(r))
            # a COLRv1 colour font (explicit colorLayers with Paint dicts, two base glyphs, glyphs CREATED in an order that is
            # neither the glyph order nor alphabetical): in memory, saved and re-opened, both libraries
            sq = lambda x, y, d: [[(Fr(x), Fr(y), "line"), (Fr(x + d), Fr(y), "line"), (Fr(x + d), Fr(y + d), "line"), (Fr(x), Fr(y + d), "line")]]
            cg = {"b": (0x62, sq(0, 0, 600)), "b.color2": (None, sq(300, 300, 300)), "a.color1": (None, sq(0, 0, 250)), "a": (0x61, sq(0, 0, 500)),
                  "b.color1": (None, sq(0, 0, 300)), "a.color2": (None, sq(250, 250, 250))}
            corder = list(cg)
            rng.shuffle(corder)
            paint = lambda nm: {"Format": 1, "Layers": [{"Format": 10, "Glyph": "%s.color%d" % (nm, k + 1),
                                                         "Paint": {"Format": 2, "PaletteIndex": k, "Alpha": 1.0}} for k in range(2)]}
            cdesc = {"glyphs": [{"name": nm, "unicodes": [cg[nm][0]] if cg[nm][0] else [], "width": 600, "contours": cg[nm][1],
                                 "components": [], "anchors": []} for nm in corder],
                     "glyphOrder": sorted(cg, reverse=True),
                     "lib": {"com.github.googlei18n.ufo2ft.colorPalettes": [[(1.0, 0.0, 0.0, 1.0), (0.0, 0.0, 1.0, 1.0)]],
                             "com.github.googlei18n.ufo2ft.colorLayers": {"b": paint("b"), "a": paint("a")}}}
            for lib in ("ufoLib2", "defcon"):
                out["colr%d/%s/ttf" % (i, lib)] = sha(lambda: ufo2ft.compileTTF(build_font(cdesc, lib)))
                out["colr%d/%s/otf-first" % (i, lib)] = sha(lambda: ufo2ft.compileOTF(build_font(cdesc, lib)))
                p = os.path.join(work, "colr%d-%s.ufo" % (i, lib))
                build_font(cdesc, lib).save(p)
                import ufoLib2, defcon
                r = ufoLib2.Font.open(p) if lib == "ufoLib2" else defcon.Font(p)
                out["colr%d/%s/ttf-reloaded" % (i, lib)] = sha(lambda: ufo2ft.compileTTF(r))
                r = ufoLib2.Font.open(p) if lib == "ufoLib2" else defcon.Font(p)
                out["colr%d/%s/otf-reloaded" % (i, lib)] = sha(lambda: ufo2ft.compileOTF(r))
            # a font whose lib asks for glyph filters, among them the dotted-circle filter over a font that HAS a U+25CC glyph
            # without the attachment anchors the marks need (odd i: no such glyph, the filter draws one): the same histories
            sqf = lambda x, y, d: [[(Fr(x), Fr(y), "line"), (Fr(x + d), Fr(y), "line"), (Fr(x + d), Fr(y + d), "line"), (Fr(x), Fr(y + d), "line")]]
            fg = [{"name": "a", "unicodes": [0x61], "width": 500, "contours": sqf(50, 0, 400), "components": [],
                   "anchors": [("top", Fr(250), Fr(520)), ("bottom", Fr(250), Fr(-10))]},
                  {"name": "acutecomb", "unicodes": [0x301], "width": 0, "contours": sqf(-60, 550, 80), "components": [],
                   "anchors": [("_top", Fr(-20), Fr(520)), ("top", Fr(-20), Fr(700))]},
                  {"name": "dotbelowcomb", "unicodes": [0x323], "width": 0, "contours": sqf(-40, -150, 60), "components": [],
                   "anchors": [("_bottom", Fr(-10), Fr(-10))]},
                  {"name": "aacute", "unicodes": [0xE1], "width": 500, "contours": [], "anchors": [],
                   "components": [("a", (1, 0, 0, 1, 0, 0)), ("acutecomb", (1, 0, 0, 1, 270, 0))]}]
            # a ligature composed of two single letters (each with `top`) and a ligature that already has numbered anchors
            # (top_1, top_2): the propagated numbered anchors meet literal ones of the same name
            fg += [{"name": "f", "unicodes": [0x66], "width": 300, "contours": sqf(0, 0, 200), "components": [], "anchors": [("top", Fr(100), Fr(700))]},
                   {"name": "f_i", "unicodes": [0xFB01], "width": 550, "contours": sqf(0, 0, 450), "components": [],
                    "anchors": [("top_1", Fr(110), Fr(710)), ("top_2", Fr(300), Fr(720))]},
                   {"name": "f_f_f_i", "unicodes": [], "width": 1150, "contours": [], "anchors": [],
                    "components": [("f", (1, 0, 0, 1, 0, 0)), ("f", (1, 0, 0, 1, 300, 0)), ("f_i", (1, 0, 0, 1, 600, 0))]}]
            # a base whose curve handles stick out sideways beyond the outline itself (a lens drawn with two cubic segments and
            # no nodes at the horizontal extremes): "how wide is this glyph" must not depend on the UFO library
            fg.append({"name": "o", "unicodes": [0x6F], "width": 500, "components": [],
                       "contours": [[(Fr(250), Fr(0), "curve"), (Fr(520), Fr(100), None), (Fr(520), Fr(400), None), (Fr(250), Fr(500), "curve"),
                                     (Fr(-20), Fr(400), None), (Fr(-20), Fr(100), None)]],
                       "anchors": [("top", Fr(300), Fr(520)), ("bottom", Fr(200), Fr(-10))]})
            if i % 2 == 0:
                fg.append({"name": "dottedcircle", "unicodes": [0x25CC], "width": 600, "contours": sqf(100, 100, 400), "components": [],
                           "anchors": [("bottom", Fr(300), Fr(-20))] if i % 4 == 2 else []})
            # a glyph with nothing in it but its advance, and a filter that scales advances: what a first compile did to its
            # working copy must not be found by the second one
            fg.append({"name": "space", "unicodes": [0x20], "width": 600, "contours": [], "components": [], "anchors": []})
            fdesc = {"glyphs": fg, "glyphOrder": [g["name"] for g in fg],
                     "lib": {"com.github.googlei18n.ufo2ft.filters": [{"name": "dottedCircle", "pre": True},
                                                                      {"name": "propagateAnchors", "pre": True},
                                                                      {"name": "transformations", "kwargs": {"ScaleX": 50, "OffsetY": 10}},
                                                                      {"name": "sortContours"}]},
                     "features": "languagesystem DFLT dflt;\n"}
            for lib in ("ufoLib2", "defcon"):
                f = build_font(fdesc, lib)
                out["filt%d/%s/ttf" % (i, lib)] = sha(lambda: ufo2ft.compileTTF(f))
                out["filt%d/%s/ttf-second" % (i, lib)] = sha(lambda: ufo2ft.compileTTF(f))
                out["filt%d/%s/otf-after-ttf" % (i, lib)] = sha(lambda: ufo2ft.compileOTF(f))
                g = build_font(fdesc, lib)
                out["filt%d/%s/otf-first" % (i, lib)] = sha(lambda: ufo2ft.compileOTF(g))
                out["filt%d/%s/ttf-after-otf" % (i, lib)] = sha(lambda: ufo2ft.compileTTF(g))
                h = build_font(fdesc, lib)
                out["filt%d/%s/ttf-inplace" % (i, lib)] = sha(lambda: ufo2ft.compileTTF(h, inplace=True))
            # a family
            ds_rng = random.Random(seed * 1000 + i)
            for lib in ("ufoLib2", "defcon"):
                r2 = random.Random(seed * 1000 + i)
                ds, fonts, masters = dsgen.family(r2, 2, lib)
                out["var%d/%s/vttf" % (i, lib)] = sha(lambda: ufo2ft.compileVariableTTF(ds))
                out["var%d/%s/vttf-second" % (i, lib)] = sha(lambda: ufo2ft.compileVariableTTF(ds))
                out["var%d/%s/vcff2-after" % (i, lib)] = sha(lambda: ufo2ft.compileVariableCFF2(ds))
                out["var%d/%s/static-after-var" % (i, lib)] = sha(lambda: ufo2ft.compileTTF(fonts[0]))
                # a format-5 document whose variable font carries public.fontInfo overrides, compiled twice, then the default
                # master compiled on its own
                r4 = random.Random(seed * 1000 + i)
                ds4, fonts4, _ = dsgen.family(r4, 2, lib, vf_info=[{"familyName": "Fam VF", "xHeight": 480, "openTypeOS2TypoAscender": 790,
                                                                    "postscriptUnderlinePosition": -90}])
                out["var%d/%s/vfinfo" % (i, lib)] = sha(lambda: ufo2ft.compileVariableTTFs(ds4)["VF0"])
                out["var%d/%s/vfinfo-second" % (i, lib)] = sha(lambda: ufo2ft.compileVariableTTFs(ds4)["VF0"])
                out["var%d/%s/static-after-vfinfo" % (i, lib)] = sha(lambda: ufo2ft.compileTTF(fonts4[0]))
                r3 = random.Random(seed * 1000 + i)
                ds2, fonts2, _ = dsgen.family(r3, 2, lib)
                out["var%d/%s/static-first" % (i, lib)] = sha(lambda: ufo2ft.compileTTF(fonts2[0]))
                out["var%d/%s/vcff2-first" % (i, lib)] = sha(lambda: ufo2ft.compileVariableCFF2(ds2))
        # the SAME options object (an ftConfig dict asking for GPOS compaction) handed to several compiles in a row, on a family
        # with two unrelated blocks of class kerning (where compaction changes the GPOS bytes): variable twice, CFF2 after,
        # a static master after -- against the same calls with fresh dicts on fresh sources
        def kern_family(lib):
            upper, lower = list("ABCDEFGH"), list("abcdefgh")
            # (Greek and Cyrillic blocks too: with variable features the pairs of all masters are gathered in a SET, and the
            # scripts' lookups must come out in one order whatever that set's iteration order is)
            greek, cyr = ["alpha", "beta", "gamma", "delta"], ["a-cy", "be-cy", "ve-cy", "ge-cy"]
            cpof = dict({nm: ord(nm) for nm in upper + lower}, **{nm: 0x3B1 + j for j, nm in enumerate(greek)}, **{nm: 0x430 + j for j, nm in enumerate(cyr)})
            def m(k):
                gl = []
                for j, nm in enumerate(upper + lower + greek + cyr):
                    w = 300 + 60 * k
                    gl.append({"name": nm, "unicodes": [cpof[nm]], "width": Fr(500 + 10 * (j % 7) + 40 * k), "components": [], "anchors": [],
                               "contours": [[(Fr(50), Fr(0), "line"), (Fr(50 + w), Fr(0), "line"), (Fr(50 + w), Fr(600), "line"), (Fr(50), Fr(600), "line")]]})
                groups, kerning = {}, {}
                for block in (upper, lower, greek, cyr):
                    firsts = block[::2]
                    for j in range(0, len(block), 2):
                        groups["public.kern1." + block[j]] = block[j:j + 2]
                        groups["public.kern2." + block[j]] = block[j:j + 2]
                    for a, x in enumerate(firsts):
                        for b, y in enumerate(firsts):
                            kerning[("public.kern1." + x, "public.kern2." + y)] = Fr(-(10 + 7 * a + 3 * b) * (k + 1))
                return {"glyphs": gl, "glyphOrder": upper + lower + greek + cyr, "groups": groups, "kerning": kerning, "lib": {}, "features": "",
                        "info": {"familyName": "Hist", "styleName": "M%d" % k, "unitsPerEm": 1000, "ascender": 800, "descender": -200}}
            return dsgen.make_designspace(random.Random(7), [m(0), m(1)], lib)
        # (the key as fontTools exports it -- an Option object -- for one library, its plain name for the other)
        from fontTools.otlLib.optimize.gpos import COMPRESSION_LEVEL as LEVEL_OPTION
        show = lambda c: repr(sorted((getattr(k, "name", k), v) for k, v in c.items()))
        for lib in ("ufoLib2", "defcon"):
            LEVEL = LEVEL_OPTION if lib == "ufoLib2" else "fontTools.otlLib.optimize.gpos:COMPRESSION_LEVEL"
            cfg = {LEVEL: 9}
            out["cfg/%s/ftconfig-before" % lib] = show(cfg)
            ds, fonts = kern_family(lib)
            out["cfg/%s/vttf" % lib] = sha(lambda: ufo2ft.compileVariableTTF(ds, ftConfig=cfg))
            out["cfg/%s/vttf-second" % lib] = sha(lambda: ufo2ft.compileVariableTTF(ds, ftConfig=cfg))
            out["cfg/%s/vcff2-after" % lib] = sha(lambda: ufo2ft.compileVariableCFF2(ds, ftConfig=cfg))
            out["cfg/%s/static-after-var" % lib] = sha(lambda: ufo2ft.compileTTF(fonts[0], ftConfig=cfg))
            out["cfg/%s/ftconfig-after" % lib] = show(cfg)
            ds2, fonts2 = kern_family(lib)
            out["cfg/%s/static-first" % lib] = sha(lambda: ufo2ft.compileTTF(fonts2[0], ftConfig={LEVEL: 9}))
            out["cfg/%s/vcff2-first" % lib] = sha(lambda: ufo2ft.compileVariableCFF2(ds2, ftConfig={LEVEL: 9}))
            out["cfg/%s/static-uncompacted" % lib] = sha(lambda: ufo2ft.compileTTF(kern_family(lib)[1][0]))
        # the same FILTER and FEATURE-WRITER objects (what a build script keeps in a list) handed to the compile of one font and
        # then to the compile of ANOTHER font whose metrics differ: the second font comes out as with fresh objects
        def objs():
            from ufo2ft.filters.transformations import TransformationsFilter
            from ufo2ft.filters.propagateAnchors import PropagateAnchorsFilter
            from ufo2ft.filters.flattenComponents import FlattenComponentsFilter
            from ufo2ft.filters.sortContours import SortContoursFilter
            from ufo2ft.filters.decomposeTransformedComponents import DecomposeTransformedComponentsFilter
            from ufo2ft.featureWriters import KernFeatureWriter, MarkFeatureWriter, GdefFeatureWriter, CursFeatureWriter
            return ([PropagateAnchorsFilter(pre=True), DecomposeTransformedComponentsFilter(pre=True), ...,
                     TransformationsFilter(Origin=0, ScaleX=90, ScaleY=80, Slant=10), TransformationsFilter(Origin=2, ScaleY=110, OffsetY=5),
                     FlattenComponentsFilter(), SortContoursFilter()],
                    [CursFeatureWriter(), KernFeatureWriter(), MarkFeatureWriter(), GdefFeatureWriter()])
        def other_font(k):
            sq = lambda x, y, d: [[(Fr(x), Fr(y), "line"), (Fr(x + d), Fr(y), "line"), (Fr(x + d), Fr(y + d), "line"), (Fr(x), Fr(y + d), "line")]]
            gl = [{"name": "H", "unicodes": [0x48], "width": 600 + 20 * k, "contours": sq(50, 0, 500 + 30 * k), "components": [], "anchors": [("top", Fr(300), Fr(700 - 50 * k))]},
                  {"name": "x", "unicodes": [0x78], "width": 500, "contours": sq(40, 0, 400), "components": [], "anchors": [("top", Fr(250), Fr(500))]},
                  {"name": "acutecomb", "unicodes": [0x301], "width": 0, "contours": sq(-40, 550, 80), "components": [], "anchors": [("_top", Fr(0), Fr(540 + 10 * k))]},
                  {"name": "Hacute", "unicodes": [0x124], "width": 600, "contours": [], "anchors": [],
                   "components": [("H", (1, 0, 0, 1, 0, 0)), ("acutecomb", (Fr(3, 4), 0, 0, Fr(3, 4), 300, 180 - 20 * k))]},
                  {"name": "HH", "unicodes": [], "width": 1200, "contours": [], "anchors": [],
                   "components": [("Hacute", (1, 0, 0, 1, 0, 0)), ("H", (1, 0, 0, 1, 620, 0))]}]
            return {"glyphs": gl, "glyphOrder": [g["name"] for g in gl], "kerning": {("H", "x"): Fr(-20 - 5 * k)}, "groups": {}, "lib": {}, "features": "",
                    "info": {"familyName": "Obj", "styleName": "F%d" % k, "unitsPerEm": 1000, "ascender": 800, "descender": -200,
                             "capHeight": 700 - 50 * k, "xHeight": 500 - 40 * k}}
        for lib in ("ufoLib2", "defcon"):
            for fl, comp in (("ttf", ufo2ft.compileTTF), ("otf", ufo2ft.compileOTF)):
                flt, wr = objs()
                sha(lambda: comp(build_font(other_font(0), lib), filters=flt, featureWriters=wr))
                out["fobj/%s/%s-after-other-font" % (lib, fl)] = sha(lambda: comp(build_font(other_font(1), lib), filters=flt, featureWriters=wr))
                flt2, wr2 = objs()
                out["fobj/%s/%s-fresh-objects" % (lib, fl)] = sha(lambda: comp(build_font(other_font(1), lib), filters=flt2, featureWriters=wr2))
        # fixtures
        data = os.path.join(os.environ.get("UFO2FT_REPO", "/repo"), "tests", "data")
        for name in (["TestFont.ufo", "TestMathFont-Regular.ufo", "ContextualAnchorsTest-Regular.ufo", "ColorTest.ufo", "MultipleAnchorClasses.ufo",
                      "CantarellAnchorPropagation.ufo"] if mode == "thorough" else
                     ["TestFont.ufo", "TestMathFont-Regular.ufo", "ContextualAnchorsTest-Regular.ufo"]):
            import ufoLib2, defcon
            for lib, opener in (("ufoLib2", ufoLib2.Font.open), ("defcon", defcon.Font)):
                f = opener(os.path.join(data, name))
                try:
                    out["fixture/%s/%s/ttf" % (name, lib)] = sha(lambda: ufo2ft.compileTTF(f))
                    out["fixture/%s/%s/ttf-second" % (name, lib)] = sha(lambda: ufo2ft.compileTTF(f))
                except Exception as e:
                    out["fixture/%s/%s/ttf-second" % (name, lib)] = "raised %s" % type(e).__name__
                if "Color" not in name:      # (colour layers: known finding F4, judged on the second call)
                    try:
                        out["fixture/%s/%s/ttf-inplace" % (name, lib)] = sha(lambda: ufo2ft.compileTTF(opener(os.path.join(data, name)), inplace=True))
                    except Exception as e:
                        out["fixture/%s/%s/ttf-inplace" % (name, lib)] = "raised %s" % type(e).__name__
    finally:
        shutil.rmtree(work, ignore_errors=True)
    print(json.dumps(out))


if __name__ == "__main__":
    main()
