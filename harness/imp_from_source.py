#!/usr/bin/env python3
"""A translator for a small IMPERATIVE fragment of Python (lists and sets of strings, mutated in place inside `if` and
`for`) into Gallina state-passing code.  Used for functions whose hand model is a fold: the translation of /repo's current
source is written to coq/theories/Generated/Imp.v on every run and proved EQUAL to the hand model (Order/GlyphOrderTied.v),
so the theorems about the hand model are theorems about what the code says now.

Fragment (everything else is fail-closed -> `imp_untranslated`, an opaque constant):
  statements   v = e | v.append(e) | v.extend(e) | v.remove(e) | v.add(e) | if c: S [else: S] | for x in e: S
               | `continue` as the last statement of an `if` inside a loop body (the rest of the body becomes the else branch)
               | return e  (last statement)
  expressions  variable | "literal" | [] | e in v | e not in v | not c | sorted(v)
  state        every mutable variable of the function, threaded through each statement as one tuple
Sets are modelled as duplicate-free lists (`mem`, `remove_str`; `add` appends when absent); iteration over a set is never
translated (its order is not defined) -- only `sorted(set)`.

Targets: util.makeOfficialGlyphOrder (C03)."""
import ast, os, sys

REPO = os.environ.get("UFO2FT_REPO", "/repo")
OUT = os.path.join(os.path.dirname(os.path.abspath(__file__)), "..", "coq", "theories", "Generated", "Imp.v")


class Unknown(Exception):
    pass


def strlit(s):
    return "([" + "; ".join(str(ord(c)) for c in s) + "] : str)"


def coq_string(s):
    return '"' + s.replace('"', "'").replace("\n", " ")[:120] + '"'


class Fn:
    """one function: `mut` = ordered mutable variables (name -> 'set' | 'list'), `params` = Gallina parameters in order,
    `pre` = python statements (as unparsed text) that are part of the calling convention and are skipped, each with the
    reason it may be"""

    def __init__(self, name, mut, params, skip):
        self.name, self.mut, self.params, self.skip = name, mut, params, skip
        self.aux = []          # loop bodies emitted as separate definitions
        self.loopvars = []

    def tup(self):
        names = [v + "_" for v in self.mut]
        return names[0] if len(names) == 1 else "(" + ", ".join(names) + ")"

    def pat(self):
        names = [v + "_" for v in self.mut]
        return names[0] if len(names) == 1 else "'(" + ", ".join(names) + ")"

    # ---- expressions
    def expr(self, e):
        if isinstance(e, ast.Constant) and isinstance(e.value, str):
            return strlit(e.value)
        if isinstance(e, ast.Name) and (e.id in self.mut or e.id in self.params or e.id in self.loopvars):
            return e.id + "_"
        if isinstance(e, ast.List) and not e.elts:
            return "[]"
        if isinstance(e, ast.Call) and isinstance(e.func, ast.Name) and e.func.id == "sorted" and len(e.args) == 1 \
                and not e.keywords:
            return "(sort_str %s)" % self.expr(e.args[0])
        raise Unknown("expression " + ast.unparse(e))

    def cond(self, e):
        if isinstance(e, ast.UnaryOp) and isinstance(e.op, ast.Not):
            return "(negb %s)" % self.cond(e.operand)
        if isinstance(e, ast.Compare) and len(e.ops) == 1 and isinstance(e.ops[0], (ast.In, ast.NotIn)):
            c = "(mem %s %s)" % (self.expr(e.left), self.expr(e.comparators[0]))
            return c if isinstance(e.ops[0], ast.In) else "(negb %s)" % c
        raise Unknown("condition " + ast.unparse(e))

    # ---- statements: block(stmts) is a Gallina term of the state tuple's type, in a context binding the state variables
    def block(self, stmts, in_loop):
        if not stmts:
            return self.tup()
        st, rest = stmts[0], stmts[1:]
        if isinstance(st, ast.Expr) and isinstance(st.value, ast.Call) and isinstance(st.value.func, ast.Attribute) \
                and isinstance(st.value.func.value, ast.Name) and st.value.func.value.id in self.mut \
                and len(st.value.args) == 1 and not st.value.keywords:
            v, m, a = st.value.func.value.id, st.value.func.attr, self.expr(st.value.args[0])
            kind = self.mut[v]
            if kind == "list" and m == "append":
                new = "(%s_ ++ [%s])" % (v, a)
            elif kind == "list" and m == "extend":
                new = "(%s_ ++ %s)" % (v, a)
            elif kind == "set" and m == "remove":
                new = "(remove_str %s %s_)" % (a, v)      # KeyError when absent: the guard `in` is part of the theorem
            elif kind == "set" and m == "add":
                new = "(if mem %s %s_ then %s_ else %s_ ++ [%s])" % (a, v, v, v, a)
            else:
                raise Unknown("method %s.%s" % (v, m))
            return "let %s_ := %s in %s" % (v, new, self.block(rest, in_loop))
        if isinstance(st, ast.Assign) and len(st.targets) == 1 and isinstance(st.targets[0], ast.Name) \
                and st.targets[0].id in self.mut:
            return "let %s_ := %s in %s" % (st.targets[0].id, self.expr(st.value), self.block(rest, in_loop))
        if isinstance(st, ast.If):
            # `if c: ...; continue` inside a loop body: what follows the `if` is the else branch
            if in_loop and st.body and isinstance(st.body[-1], ast.Continue) and not st.orelse:
                return "(if %s then %s else %s)" % (self.cond(st.test), self.block(st.body[:-1], False),
                                                    self.block(rest, in_loop))
            for b in (st.body, st.orelse):
                for n in ast.walk(ast.Module(body=b, type_ignores=[])):
                    if isinstance(n, (ast.Continue, ast.Break, ast.Return)):
                        raise Unknown("jump inside " + ast.unparse(st).splitlines()[0])
            return "let %s := (if %s then %s else %s) in %s" % (
                self.pat(), self.cond(st.test), self.block(st.body, False), self.block(st.orelse, False),
                self.block(rest, in_loop))
        if isinstance(st, ast.For) and isinstance(st.target, ast.Name) and not st.orelse:
            it = st.iter
            if not (isinstance(it, ast.Name) and it.id in self.params):
                raise Unknown("iteration over " + ast.unparse(it))        # never over a set
            x = st.target.id
            self.loopvars.append(x)
            body = self.block(st.body, True)
            self.loopvars.pop()
            aux = "tr_%s_loop%d" % (self.name, len(self.aux) + 1)
            ty = " * ".join("list str" for _ in self.mut)
            self.aux.append("Definition %s (st : %s) (%s_ : str) : %s :=\n  let %s := st in %s." % (
                aux, ty, x, ty, self.pat(), body))
            return "let %s := fold_left %s %s_ %s in %s" % (self.pat(), aux, it.id, self.tup(), self.block(rest, in_loop))
        raise Unknown("statement " + ast.unparse(st).splitlines()[0])

    def translate(self, fn):
        body = fn.body
        if body and isinstance(body[0], ast.Expr) and isinstance(body[0].value, ast.Constant):
            body = body[1:]
        kept = []
        for st in body:
            if ast.unparse(st) in self.skip:
                continue
            kept.append(st)
        if not kept or not isinstance(kept[-1], ast.Return) or kept[-1].value is None:
            raise Unknown("no final return")
        ret = kept[-1].value
        inits, stmts = {}, kept[:-1]
        # leading initialisations of the mutable variables
        while stmts and isinstance(stmts[0], ast.Assign) and len(stmts[0].targets) == 1 \
                and isinstance(stmts[0].targets[0], ast.Name) and stmts[0].targets[0].id in self.mut \
                and stmts[0].targets[0].id not in inits:
            v, val = stmts[0].targets[0].id, stmts[0].value
            txt = ast.unparse(val)
            if txt in self.skip_init:
                inits[v] = self.skip_init[txt]
            else:
                inits[v] = self.expr(val)
            stmts = stmts[1:]
        if set(inits) != set(self.mut):
            raise Unknown("mutable variables not all initialised first: " + ", ".join(sorted(set(self.mut) - set(inits))))
        main = " ".join("let %s_ := %s in" % (v, inits[v]) for v in self.mut)
        # the final expression is evaluated in the final state
        final = "let %s := (%s) in %s" % (self.pat(), self.block(stmts, False), self.expr(ret))
        return main + " " + final


def target_glyph_order(tree):
    f = Fn("glyph_order", {"names": "set", "order": "list"}, ["keys", "glyphOrder"],
           skip={"if glyphOrder is None:\n    glyphOrder = getattr(font, 'glyphOrder', ())":
                 "the caller-side default; the model takes the resolved list"})
    f.skip_init = {"set(font.keys())": "keys_"}        # the font's glyph names, duplicate-free
    fn = next((n for n in tree.body if isinstance(n, ast.FunctionDef) and n.name == "makeOfficialGlyphOrder"), None)
    if fn is None:
        raise Unknown("makeOfficialGlyphOrder not found")
    if [a.arg for a in fn.args.args] != ["font", "glyphOrder"]:
        raise Unknown("signature of makeOfficialGlyphOrder")
    term = f.translate(fn)
    return f.aux + ["Definition tr_glyph_order (keys_ glyphOrder_ : list str) : list str :=\n  %s." % term]


def main():
    notes, out = [], ["(* GENERATED on every run by harness/imp_from_source.py from /repo's current source -- do not edit. *)",
                      "From Coq Require Import ZArith List String.", "From U2F Require Import Base.Prelude.",
                      "Import ListNotations.", "Open Scope Z_scope.", "",
                      "(* a source construct outside the translated fragment: opaque, nothing can be proved about it *)",
                      "Definition imp_untranslated (what : string) (keys_ glyphOrder_ : list str) : list str. Proof. exact []. Qed.",
                      ""]
    try:
        tree = ast.parse(open(os.path.join(REPO, "Lib", "ufo2ft", "util.py")).read())
        out += target_glyph_order(tree)
    except (Unknown, OSError, SyntaxError) as u:
        notes.append("makeOfficialGlyphOrder: " + str(u))
        out.append("Definition tr_glyph_order (keys_ glyphOrder_ : list str) : list str :=\n  imp_untranslated %s%%string keys_ glyphOrder_."
                   % coq_string(str(u)))
    text = "\n".join(out) + "\n"
    old = open(OUT).read() if os.path.exists(OUT) else None
    if old != text:
        open(OUT, "w").write(text)
    for n in notes:
        print("UNTRANSLATED:", n)
    print("translated makeOfficialGlyphOrder, %d notes" % len(notes))
    return 0


if __name__ == "__main__":
    sys.exit(main())
