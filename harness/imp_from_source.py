#!/usr/bin/env python3
"""A translator for a small IMPERATIVE fragment of Python (lists / sets of names and insertion-ordered dicts, mutated in place
inside `if` and (nested) `for`, with `continue` and `raise`) into Gallina state-passing code.  Used for functions whose hand
model is a fold: the translation of /repo's current source is written to coq/theories/Generated/Imp.v on every run and proved
EQUAL to the hand model (Order/GlyphOrderTied.v), so the theorems about the hand model are theorems about what the code says
now.

Fragment (everything else is fail-closed -> an opaque `imp_untranslated*` constant, about which nothing can be proved):
  statements   v = e | v.append(e) | v.extend(e) | v.remove(e) | v.add(e) | d[k] = e | if c: S [else: S] | for x in e: S
               | `continue` as the last statement of an `if` inside a loop body (the rest of the body becomes the else branch)
               | raise E(fmt % (a, b, ...))  (the state's error slot takes (a, b, ...); once set, every later statement and
                 iteration is a no-op -- the final value is the first error, as with a real exception)
               | return e  (last statement)
  expressions  variable | "literal" | [] | {} | e in v | e not in v | not c | sorted(v) | d[k]
  state        every mutable variable of the function (+ the error slot), threaded through each statement as one tuple; a
               loop body is emitted as a separate definition that takes the enclosing loop variables as parameters
Sets are duplicate-free lists (`mem`, `remove_str`; `add` appends when absent), dicts are association lists in insertion order
(`zget`, `zmem`, `zset`: assignment replaces in place or appends); iteration over a set is never translated (its order is not
defined) -- only `sorted(set)`.

Targets: util.makeOfficialGlyphOrder, util.makeUnicodeToGlyphNameMapping (C03)."""
import ast, os, sys

REPO = os.environ.get("UFO2FT_REPO", "/repo")
OUT = os.environ.get("IMP_OUT") or os.path.join(os.path.dirname(os.path.abspath(__file__)), "..", "coq", "theories", "Generated", "Imp.v")

KIND_TYPE = {"set": "list str", "list": "list str", "dict": "list (Z * str)"}


class Unknown(Exception):
    pass


def strlit(s):
    return "([" + "; ".join(str(ord(c)) for c in s) + "] : str)"


def coq_string(s):
    return '"' + s.replace('"', "'").replace("\n", " ")[:120] + '"'


class Fn:
    """one function.
    mut      ordered {python name: 'set' | 'list' | 'dict'}: the mutable variables (the state)
    params   {python name: Gallina type} of the immutable inputs
    err      Gallina type of the error payload, or None when the function raises nothing
    skip     {unparsed statement: reason}: statements that belong to the calling convention and are not translated
    init     {unparsed initialiser: Gallina term}: initialisers that name an input
    pairs    {param: [(python name, Gallina type), ...]}: a parameter whose elements are tuples the loop over it unpacks
             (the loop variable is the first component; the others are bound by the statements listed in `skip`)"""

    def __init__(self, name, mut, params, err=None, skip=None, init=None, pairs=None):
        self.name, self.mut, self.params, self.err = name, mut, params, err
        self.skip, self.init, self.pairs = skip or {}, init or {}, pairs or {}
        self.aux = []
        self.locals = {}            # loop variables in scope: python name -> Gallina type

    # ---- the state tuple
    def comps(self):
        return [v + "_" for v in self.mut] + (["err_"] if self.err else [])

    def types(self):
        return [KIND_TYPE[k] for k in self.mut.values()] + (["option (%s)" % self.err] if self.err else [])

    def tup(self):
        c = self.comps()
        return c[0] if len(c) == 1 else "(" + ", ".join(c) + ")"

    def pat(self):
        c = self.comps()
        return c[0] if len(c) == 1 else "'(" + ", ".join(c) + ")"

    def state_type(self):
        return " * ".join(self.types())

    # ---- expressions
    def known(self, n):
        return n in self.mut or n in self.params or n in self.locals

    def expr(self, e):
        if isinstance(e, ast.Constant) and isinstance(e.value, str):
            return strlit(e.value)
        if isinstance(e, ast.Name) and self.known(e.id):
            return e.id + "_"
        if isinstance(e, ast.List) and not e.elts:
            return "[]"
        if isinstance(e, ast.Dict) and not e.keys:
            return "[]"
        if isinstance(e, ast.Call) and isinstance(e.func, ast.Name) and e.func.id == "sorted" and len(e.args) == 1 \
                and not e.keywords:
            return "(sort_str %s)" % self.expr(e.args[0])
        if isinstance(e, ast.Subscript) and isinstance(e.value, ast.Name) and self.mut.get(e.value.id) == "dict":
            return "(zget %s %s_)" % (self.expr(e.slice), e.value.id)
        raise Unknown("expression " + ast.unparse(e))

    def cond(self, e):
        if isinstance(e, ast.UnaryOp) and isinstance(e.op, ast.Not):
            return "(negb %s)" % self.cond(e.operand)
        if isinstance(e, ast.Compare) and len(e.ops) == 1 and isinstance(e.ops[0], (ast.In, ast.NotIn)) \
                and isinstance(e.comparators[0], ast.Name) and self.known(e.comparators[0].id):
            box = e.comparators[0].id
            fn = "zmem" if self.mut.get(box) == "dict" else "mem"
            c = "(%s %s %s_)" % (fn, self.expr(e.left), box)
            return c if isinstance(e.ops[0], ast.In) else "(negb %s)" % c
        raise Unknown("condition " + ast.unparse(e))

    # ---- statements: block(stmts) is a Gallina term of the state type, in a context binding the state components
    def block(self, stmts, in_loop):
        if not stmts:
            return self.tup()
        st, rest = stmts[0], stmts[1:]
        if ast.unparse(st) in self.skip:
            return self.block(rest, in_loop)
        # v.method(e)
        if isinstance(st, ast.Expr) and isinstance(st.value, ast.Call) and isinstance(st.value.func, ast.Attribute) \
                and isinstance(st.value.func.value, ast.Name) and st.value.func.value.id in self.mut \
                and len(st.value.args) == 1 and not st.value.keywords:
            v, m, a = st.value.func.value.id, st.value.func.attr, self.expr(st.value.args[0])
            kind = self.mut[v]
            if kind == "list" and m == "append":
                new = "(%s_ ++ [%s])" % (v, a)
            elif kind == "list" and m == "extend":
                new = "(%s_ ++ %s)" % (v, a)
            elif kind == "set" and m == "remove":
                new = "(remove_str %s %s_)" % (a, v)      # KeyError when absent: the guard `in` is part of the theorem
            elif kind == "set" and m == "add":
                new = "(if mem %s %s_ then %s_ else %s_ ++ [%s])" % (a, v, v, v, a)
            else:
                raise Unknown("method %s.%s" % (v, m))
            return "let %s_ := %s in %s" % (v, new, self.block(rest, in_loop))
        # v = e   |   d[k] = e
        if isinstance(st, ast.Assign) and len(st.targets) == 1:
            t = st.targets[0]
            if isinstance(t, ast.Name) and t.id in self.mut:
                return "let %s_ := %s in %s" % (t.id, self.expr(st.value), self.block(rest, in_loop))
            if isinstance(t, ast.Subscript) and isinstance(t.value, ast.Name) and self.mut.get(t.value.id) == "dict":
                return "let %s_ := (zset %s %s %s_) in %s" % (t.value.id, self.expr(t.slice), self.expr(st.value), t.value.id,
                                                            self.block(rest, in_loop))
        # raise E(fmt % (a, b, ...)): must end its block
        if isinstance(st, ast.Raise) and self.err and not rest and isinstance(st.exc, ast.Call) and len(st.exc.args) == 1 \
                and isinstance(st.exc.args[0], ast.BinOp) and isinstance(st.exc.args[0].op, ast.Mod) \
                and isinstance(st.exc.args[0].right, ast.Tuple):
            payload = "(" + ", ".join(self.expr(x) for x in st.exc.args[0].right.elts) + ")"
            return "let err_ := Some %s in %s" % (payload, self.tup())
        if isinstance(st, ast.If):
            # `if c: ...; continue` inside a loop body: what follows the `if` is the else branch
            if in_loop and st.body and isinstance(st.body[-1], ast.Continue) and not st.orelse:
                return "(if %s then %s else %s)" % (self.cond(st.test), self.block(st.body[:-1], False),
                                                    self.block(rest, in_loop))
            for b in (st.body, st.orelse):
                for n in ast.walk(ast.Module(body=b, type_ignores=[])):
                    if isinstance(n, (ast.Continue, ast.Break, ast.Return)):
                        raise Unknown("jump inside " + ast.unparse(st).splitlines()[0])
            tail = self.guarded(self.block(rest, in_loop)) if rest else self.tup()
            return "let %s := (if %s then %s else %s) in %s" % (
                self.pat(), self.cond(st.test), self.block(st.body, False), self.block(st.orelse, False), tail)
        if isinstance(st, ast.For) and isinstance(st.target, ast.Name) and not st.orelse:
            it = st.iter
            if not isinstance(it, ast.Name):
                raise Unknown("iteration over " + ast.unparse(it))
            x = st.target.id
            if it.id in self.pairs:                                   # a list of tuples handed in by the caller
                fields = self.pairs[it.id]
                if fields[0][0] != x:
                    raise Unknown("loop variable %s over %s" % (x, it.id))
                elem_t = " * ".join(t for _, t in fields)
                bind = "let '(%s) := elem_ in " % ", ".join(n + "_" for n, _ in fields)
                new_locals = dict(fields)
                elem = "elem_"
            elif it.id in self.params and self.params[it.id].startswith("list "):
                elem_t, bind, new_locals, elem = self.params[it.id][5:], "", {x: self.params[it.id][5:]}, x + "_"
            elif it.id in self.locals and self.locals[it.id].startswith("list "):
                elem_t, bind, new_locals, elem = self.locals[it.id][5:], "", {x: self.locals[it.id][5:]}, x + "_"
            else:
                raise Unknown("iteration over " + ast.unparse(it))        # never over a set
            outer = dict(self.locals)
            self.locals.update(new_locals)
            body = self.guarded(self.block(st.body, True))
            self.locals = outer
            aux = "tr_%s_loop%d" % (self.name, len(self.aux) + 1)
            ps = "".join(" (%s_ : %s)" % (n, t) for n, t in outer.items())
            self.aux.append("Definition %s%s (st : %s) (%s : %s) : %s :=\n  let %s := st in %s%s." % (
                aux, ps, self.state_type(), elem, elem_t.strip("()") if " * " not in elem_t else elem_t, self.state_type(),
                self.pat(), bind, body))
            call = "(%s%s)" % (aux, "".join(" %s_" % n for n in outer))
            tail = self.guarded(self.block(rest, in_loop)) if rest else self.tup()
            return "let %s := fold_left %s %s_ %s in %s" % (self.pat(), call, it.id, self.tup(), tail)
        raise Unknown("statement " + ast.unparse(st).splitlines()[0])

    def guarded(self, term):
        """once the error slot is set nothing else happens"""
        if not self.err:
            return term
        return "match err_ with Some _ => %s | None => %s end" % (self.tup(), term)

    def translate(self, fn):
        body = fn.body
        if body and isinstance(body[0], ast.Expr) and isinstance(body[0].value, ast.Constant):
            body = body[1:]
        kept = [st for st in body if ast.unparse(st) not in self.skip]
        if not kept or not isinstance(kept[-1], ast.Return) or kept[-1].value is None:
            raise Unknown("no final return")
        ret = kept[-1].value
        inits, stmts = {}, kept[:-1]
        while stmts and isinstance(stmts[0], ast.Assign) and len(stmts[0].targets) == 1 \
                and isinstance(stmts[0].targets[0], ast.Name) and stmts[0].targets[0].id in self.mut \
                and stmts[0].targets[0].id not in inits:
            v, val = stmts[0].targets[0].id, stmts[0].value
            inits[v] = self.init.get(ast.unparse(val)) or self.expr(val)
            stmts = stmts[1:]
        if set(inits) != set(self.mut):
            raise Unknown("mutable variables not all initialised first: " + ", ".join(sorted(set(self.mut) - set(inits))))
        main = " ".join("let %s_ := %s in" % (v, inits[v]) for v in self.mut)
        if self.err:
            main += " let err_ := (None : option (%s)) in" % self.err
        result = self.expr(ret)
        if self.err:
            result = "match err_ with Some e_ => inr e_ | None => inl %s end" % result
        return "%s let %s := (%s) in %s" % (main, self.pat(), self.block(stmts, False), result)


def find(tree, name, args):
    fn = next((n for n in tree.body if isinstance(n, ast.FunctionDef) and n.name == name), None)
    if fn is None:
        raise Unknown(name + " not found")
    if [a.arg for a in fn.args.args] != args:
        raise Unknown("signature of " + name)
    return fn


def target_glyph_order(tree):
    f = Fn("glyph_order", {"names": "set", "order": "list"}, {"keys": "list str", "glyphOrder": "list str"},
           skip={"if glyphOrder is None:\n    glyphOrder = getattr(font, 'glyphOrder', ())":
                 "the caller-side default; the model takes the resolved list"},
           init={"set(font.keys())": "keys_"})           # the font's glyph names, duplicate-free
    term = f.translate(find(tree, "makeOfficialGlyphOrder", ["font", "glyphOrder"]))
    return f.aux + ["Definition tr_glyph_order (keys_ glyphOrder_ : list str) : list str :=\n  %s." % term]


def target_u2g(tree):
    f = Fn("u2g", {"mapping": "dict"}, {"glyphOrder": "list (str * list Z)"}, err="str * Z * str",
           skip={"if glyphOrder is None:\n    glyphOrder = makeOfficialGlyphOrder(font)": "the caller-side default",
                 "glyph = font[glyphName]": "the caller hands in (name, unicodes) pairs",
                 "unicodes = glyph.unicodes": "the caller hands in (name, unicodes) pairs",
                 "from ufo2ft.errors import InvalidFontData": "import"},
           pairs={"glyphOrder": [("glyphName", "str"), ("unicodes", "list Z")]})
    term = f.translate(find(tree, "makeUnicodeToGlyphNameMapping", ["font", "glyphOrder"]))
    return f.aux + ["Definition tr_u2g (glyphOrder_ : list (str * list Z)) : list (Z * str) + (str * Z * str) :=\n  %s." % term]


# ---------------------------------------------------------------- a LOOP inside a method: the variation-sequence loop of setupTable_cmap
def find_method(tree, cls, name):
    c = next((n for n in tree.body if isinstance(n, ast.ClassDef) and n.name == cls), None)
    if c is None:
        raise Unknown("class %s not found" % cls)
    fn = next((n for n in c.body if isinstance(n, ast.FunctionDef) and n.name == name), None)
    if fn is None:
        raise Unknown("%s.%s not found" % (cls, name))
    return fn


def target_uvs(tree):
    """`for hexvs, glyphMapping in uvsMapping.items(): ...` in BaseOutlineCompiler.setupTable_cmap -> tr_uvs.
    The caller hands in the selectors and base code points as integers (`int(h, 16)` is the identity of the translation), the
    compiled glyph set's names (`self.allGlyphs`) and the character map (`mapping`).
    Fragment: the outer loop body is  L = []; <inner loop>; if L: D[int(k, 16)] = L ; the inner loop body is a sequence of
      v = int(h, 16) | if g not in self.allGlyphs: continue | if a == mapping.get(b): L.append(T) else: L.append(T)
    with T a pair (int, None | name)."""
    fn = find_method(tree, "BaseOutlineCompiler", "setupTable_cmap")
    loops = [n for n in ast.walk(fn) if isinstance(n, ast.For) and ast.unparse(n.iter) == "uvsMapping.items()"]
    if len(loops) != 1:
        raise Unknown("%d loops over uvsMapping.items()" % len(loops))
    outer = loops[0]
    # what the loop fills must be a fresh dict, and nothing else may write to it before it is stored
    pre = [ast.unparse(n) for n in ast.walk(fn) if isinstance(n, ast.Assign) and ast.unparse(n.targets[0]) == "uvsDict"]
    if pre != ["uvsDict = dict()"] and pre != ["uvsDict = {}"]:
        raise Unknown("initialisation of uvsDict: %r" % pre)
    if not (isinstance(outer.target, ast.Tuple) and len(outer.target.elts) == 2 and all(isinstance(e, ast.Name) for e in outer.target.elts)) or outer.orelse:
        raise Unknown("outer loop target")
    kvs, inner_src = (e.id for e in outer.target.elts)
    if len(outer.body) != 3:
        raise Unknown("outer loop body has %d statements" % len(outer.body))
    init, inner, store = outer.body
    if not (isinstance(init, ast.Assign) and len(init.targets) == 1 and isinstance(init.targets[0], ast.Name)
            and isinstance(init.value, ast.List) and not init.value.elts):
        raise Unknown("outer: " + ast.unparse(init))
    L = init.targets[0].id
    if not (isinstance(inner, ast.For) and ast.unparse(inner.iter) == inner_src + ".items()" and isinstance(inner.target, ast.Tuple)
            and len(inner.target.elts) == 2 and all(isinstance(e, ast.Name) for e in inner.target.elts) and not inner.orelse):
        raise Unknown("inner loop " + ast.unparse(inner).splitlines()[0])
    hk, gname = (e.id for e in inner.target.elts)
    env = {hk: ("%s_" % hk, "Z"), gname: ("%s_" % gname, "str")}          # python name -> (term, type)

    def is_int16(e, name):
        return (isinstance(e, ast.Call) and isinstance(e.func, ast.Name) and e.func.id == "int" and len(e.args) == 2 and not e.keywords
                and isinstance(e.args[0], ast.Name) and e.args[0].id == name and isinstance(e.args[1], ast.Constant) and e.args[1].value == 16)

    def expr(e):
        if isinstance(e, ast.Name) and e.id in env:
            return env[e.id]
        if isinstance(e, ast.Constant) and e.value is None:
            return ("None", "ostr")
        if isinstance(e, ast.Call) and ast.unparse(e.func) == "mapping.get" and len(e.args) == 1 and not e.keywords:
            t, ty = expr(e.args[0])
            if ty != "Z":
                raise Unknown("mapping.get of a " + ty)
            return ("(zfind %s mapping_)" % t, "ostr")
        raise Unknown("expression " + ast.unparse(e))

    def as_ostr(e):
        t, ty = expr(e)
        if ty == "str":
            return "(Some %s)" % t
        if ty == "ostr":
            return t
        raise Unknown("not a name: " + ast.unparse(e))

    def append(st):
        if not (isinstance(st, ast.Expr) and isinstance(st.value, ast.Call) and ast.unparse(st.value.func) == L + ".append"
                and len(st.value.args) == 1 and isinstance(st.value.args[0], ast.Tuple) and len(st.value.args[0].elts) == 2):
            raise Unknown("statement " + ast.unparse(st))
        a, b = st.value.args[0].elts
        ta, tya = expr(a)
        if tya != "Z":
            raise Unknown("first component " + ast.unparse(a))
        return "%s_ ++ [(%s, %s)]" % (L, ta, as_ostr(b))

    def body(stmts):
        if not stmts:
            return L + "_"
        st, rest = stmts[0], stmts[1:]
        if isinstance(st, ast.Assign) and len(st.targets) == 1 and isinstance(st.targets[0], ast.Name) and is_int16(st.value, hk):
            env[st.targets[0].id] = (hk + "_", "Z")
            return body(rest)
        if isinstance(st, ast.If) and not st.orelse and len(st.body) == 1 and isinstance(st.body[0], ast.Continue) \
                and isinstance(st.test, ast.Compare) and len(st.test.ops) == 1 and isinstance(st.test.ops[0], ast.NotIn) \
                and ast.unparse(st.test.comparators[0]) == "self.allGlyphs":
            t, ty = expr(st.test.left)
            if ty != "str":
                raise Unknown("membership of a " + ty)
            return "(if negb (mem %s allGlyphs_) then %s_ else %s)" % (t, L, body(rest))
        if isinstance(st, ast.If) and len(st.body) == 1 and len(st.orelse) == 1 and isinstance(st.test, ast.Compare) \
                and len(st.test.ops) == 1 and isinstance(st.test.ops[0], ast.Eq):
            c = "(ostr_eqb %s %s)" % (as_ostr(st.test.left), as_ostr(st.test.comparators[0]))
            return "let %s_ := (if %s then %s else %s) in %s" % (L, c, append(st.body[0]), append(st.orelse[0]), body(rest))
        raise Unknown("statement " + ast.unparse(st).splitlines()[0])
    inner_term = body(inner.body)
    if not (isinstance(store, ast.If) and isinstance(store.test, ast.Name) and store.test.id == L and not store.orelse and len(store.body) == 1
            and isinstance(store.body[0], ast.Assign) and len(store.body[0].targets) == 1
            and isinstance(store.body[0].targets[0], ast.Subscript) and ast.unparse(store.body[0].targets[0].value) == "uvsDict"
            and is_int16(store.body[0].targets[0].slice, kvs) and isinstance(store.body[0].value, ast.Name) and store.body[0].value.id == L):
        raise Unknown("outer: " + ast.unparse(store).splitlines()[0])
    return ["Definition tr_uvs_inner (allGlyphs_ : list str) (mapping_ : list (Z * str)) (%s_ : list (Z * option str)) (e_ : Z * str)\n"
            "  : list (Z * option str) :=\n  let '(%s_, %s_) := e_ in %s." % (L, hk, gname, inner_term),
            "Definition tr_uvs_outer (allGlyphs_ : list str) (mapping_ : list (Z * str)) (uvsDict_ : list (Z * list (Z * option str)))\n"
            "  (e_ : Z * list (Z * str)) : list (Z * list (Z * option str)) :=\n"
            "  let '(%s_, %s_) := e_ in\n  let %s_ := fold_left (tr_uvs_inner allGlyphs_ mapping_) %s_ [] in\n"
            "  match %s_ with [] => uvsDict_ | _ => dset %s_ %s_ uvsDict_ end." % (kvs, inner_src, L, inner_src, L, kvs, L),
            "Definition tr_uvs (allGlyphs_ : list str) (mapping_ : list (Z * str)) (uvsMapping_ : list (Z * list (Z * str)))\n"
            "  : list (Z * list (Z * option str)) :=\n  fold_left (tr_uvs_outer allGlyphs_ mapping_) uvsMapping_ []."]


PRELUDE = """(* GENERATED on every run by harness/imp_from_source.py from /repo's current source -- do not edit. *)
From Coq Require Import ZArith List String.
From U2F Require Import Base.Prelude.
Import ListNotations.
Open Scope Z_scope.

(* a source construct outside the translated fragment: opaque, nothing can be proved about it *)
Definition imp_untranslated (what : string) (keys_ glyphOrder_ : list str) : list str. Proof. exact []. Qed.
Definition imp_untranslated_u2g (what : string) (glyphOrder_ : list (str * list Z)) : list (Z * str) + (str * Z * str).
Proof. exact (inl []). Qed.

(* Python dicts with integer keys and name values: association lists in insertion order *)
Fixpoint zfind (k : Z) (m : list (Z * str)) : option str :=
  match m with [] => None | (k', v) :: m' => if Z.eqb k k' then Some v else zfind k m' end.
Definition zmem (k : Z) (m : list (Z * str)) : bool := match zfind k m with Some _ => true | None => false end.
Definition zget (k : Z) (m : list (Z * str)) : str := match zfind k m with Some v => v | None => [] end.   (* KeyError when absent *)
Fixpoint zset (k : Z) (v : str) (m : list (Z * str)) : list (Z * str) :=
  match m with [] => [(k, v)] | (k', v') :: m' => if Z.eqb k k' then (k, v) :: m' else (k', v') :: zset k v m' end.
(* ... with integer keys and any values (d[k] = v), and equality of optional names *)
Fixpoint dset {V} (k : Z) (v : V) (m : list (Z * V)) : list (Z * V) :=
  match m with [] => [(k, v)] | (k', v') :: m' => if Z.eqb k k' then (k, v) :: m' else (k', v') :: dset k v m' end.
Definition ostr_eqb (a b : option str) : bool :=
  match a, b with Some x, Some y => str_eqb x y | None, None => true | _, _ => false end.
Definition imp_untranslated_uvs (what : string) (allGlyphs_ : list str) (mapping_ : list (Z * str)) (uvsMapping_ : list (Z * list (Z * str)))
  : list (Z * list (Z * option str)). Proof. exact []. Qed.
"""


def main():
    notes, out = [], [PRELUDE]
    try:
        tree = ast.parse(open(os.path.join(REPO, "Lib", "ufo2ft", "util.py")).read())
    except (OSError, SyntaxError) as e:
        tree, notes = ast.parse(""), ["util.py unreadable: %s" % e]
    for name, target, fallback in (
            ("makeOfficialGlyphOrder", target_glyph_order,
             "Definition tr_glyph_order (keys_ glyphOrder_ : list str) : list str :=\n  imp_untranslated %s%%string keys_ glyphOrder_."),
            ("makeUnicodeToGlyphNameMapping", target_u2g,
             "Definition tr_u2g (glyphOrder_ : list (str * list Z)) : list (Z * str) + (str * Z * str) :=\n  imp_untranslated_u2g %s%%string glyphOrder_.")):
        try:
            out += target(tree)
        except Unknown as u:
            notes.append("%s: %s" % (name, u))
            out.append(fallback % coq_string(str(u)))
        out.append("")
    try:
        tree2 = ast.parse(open(os.path.join(REPO, "Lib", "ufo2ft", "outlineCompiler.py")).read())
        out += target_uvs(tree2)
    except (Unknown, OSError, SyntaxError) as u:
        notes.append("setupTable_cmap (variation sequences): %s" % u)
        out.append("Definition tr_uvs (allGlyphs_ : list str) (mapping_ : list (Z * str)) (uvsMapping_ : list (Z * list (Z * str)))\n"
                   "  : list (Z * list (Z * option str)) :=\n  imp_untranslated_uvs %s%%string allGlyphs_ mapping_ uvsMapping_." % coq_string(str(u)))
    out.append("")
    text = "\n".join(out)
    old = open(OUT).read() if os.path.exists(OUT) else None
    if old != text:
        open(OUT, "w").write(text)
    for n in notes:
        print("UNTRANSLATED:", n)
    print("translated makeOfficialGlyphOrder, makeUnicodeToGlyphNameMapping, the variation-sequence loop of setupTable_cmap; %d notes" % len(notes))
    return 0


if __name__ == "__main__":
    sys.exit(main())
