#!/usr/bin/env python3
"""Regenerate coq/theories/Generated/Constants.v from /repo's current source.

The anchored files are parsed with `ast` (never imported).  Each extractor is
fail-soft on *location* (constant not found -> checked-in snapshot value is
emitted and the name is reported in `missing`) and strict on *value* (found ->
the value in the source now is emitted, and every theorem mentioning it is
re-checked by make).
"""
import ast, json, os, sys

REPO = os.environ.get("UFO2FT_REPO", "/repo")
LIB = os.path.join(REPO, "Lib", "ufo2ft")
OUT = os.path.join(os.path.dirname(os.path.abspath(__file__)), "..", "coq", "theories", "Generated", "Constants.v")
SNAP = os.path.join(os.path.dirname(os.path.abspath(__file__)), "consts_snapshot.json")


def parse(rel):
    with open(os.path.join(LIB, rel), encoding="utf-8") as f:
        return ast.parse(f.read())


def find_func(tree, name, cls=None):
    for node in ast.walk(tree):
        if cls is not None:
            if isinstance(node, ast.ClassDef) and node.name == cls:
                for sub in ast.walk(node):
                    if isinstance(sub, (ast.FunctionDef,)) and sub.name == name:
                        return sub
        elif isinstance(node, ast.FunctionDef) and node.name == name:
            return node
    return None


def find_assign(tree, name):
    """module- or class-level `name = <expr>`; returns the value node"""
    for node in ast.walk(tree):
        if isinstance(node, ast.Assign):
            for t in node.targets:
                if isinstance(t, ast.Name) and t.id == name:
                    return node.value
        if isinstance(node, ast.AnnAssign) and isinstance(node.target, ast.Name) and node.target.id == name:
            return node.value
    return None


def lit(node):
    return ast.literal_eval(node)


EXTRACTORS = {}
EMITTERS = {}


def extractor(name, emit):
    def deco(f):
        EXTRACTORS[name] = f
        EMITTERS[name] = emit
        return f
    return deco


# ---------------------------------------------------------------- C03
@extractor("cmap_bmp_max", lambda v: [
    "(* outlineCompiler.setupTable_cmap *)",
    "Definition cmap_nonbmp_gt : Z := %s." % gallina(v["nonbmp_gt"]),
    "Definition cmap_bmp_le : Z := %s." % gallina(v["bmp_le"])])
def _cmap_bmp_max():
    """the `k > 65535` / `k <= 65535` threshold of setupTable_cmap"""
    fn = find_func(parse("outlineCompiler.py"), "setupTable_cmap")
    gts, les = set(), set()
    for node in ast.walk(fn):
        if isinstance(node, ast.Compare) and len(node.ops) == 1 and isinstance(node.comparators[0], ast.Constant):
            v = node.comparators[0].value
            if isinstance(v, int) and v > 1000:
                if isinstance(node.ops[0], ast.Gt):
                    gts.add(v)
                elif isinstance(node.ops[0], ast.LtE):
                    les.add(v)
                elif isinstance(node.ops[0], ast.GtE):
                    gts.add(v - 1)
                elif isinstance(node.ops[0], ast.Lt):
                    les.add(v - 1)
    if len(gts) != 1 or len(les) != 1:
        raise LookupError("cmap thresholds not found")
    return {"nonbmp_gt": gts.pop(), "bmp_le": les.pop()}


@extractor("os2_char_index_max", lambda v: [
    "(* outlineCompiler.setupTable_OS2 first/last char index clamp *)",
    "Definition os2_char_index_max : Z := %s." % gallina(v)])
def _os2_char_index_max():
    """`if maxIndex > 0xFFFF: maxIndex = 0xFFFF` in setupTable_OS2"""
    fn = find_func(parse("outlineCompiler.py"), "setupTable_OS2")
    vals = set()
    for node in ast.walk(fn):
        if isinstance(node, ast.If) and isinstance(node.test, ast.Compare):
            t = node.test
            if isinstance(t.left, ast.Name) and t.left.id == "maxIndex" and isinstance(t.ops[0], ast.Gt):
                vals.add(lit(t.comparators[0]))
                for st in node.body:
                    if isinstance(st, ast.Assign):
                        vals.add(lit(st.value))
    if len(vals) != 1:
        raise LookupError("maxIndex clamp")
    return vals.pop()


# ---------------------------------------------------------------- C11 / C12
def _class_attr(tree, cls, name):
    for node in ast.walk(tree):
        if isinstance(node, ast.ClassDef) and node.name == cls:
            for st in node.body:
                if isinstance(st, ast.Assign) and isinstance(st.targets[0], ast.Name) and st.targets[0].id == name:
                    return st.value
    raise LookupError(name)


def _charclass_ranges(pattern):
    """'[^0-9a-zA-Z_.]' -> sorted list of allowed (lo, hi) code point ranges"""
    if not (pattern.startswith("[^") and pattern.endswith("]")):
        raise LookupError("unsupported regex form %r" % pattern)
    body = pattern[2:-1]
    out, i = [], 0
    while i < len(body):
        c = body[i]
        if c == "\\":
            i += 1
            c = body[i]
        if i + 2 < len(body) and body[i + 1] == "-":
            out.append([ord(c), ord(body[i + 2])])
            i += 3
        else:
            out.append([ord(c), ord(c)])
            i += 1
    return sorted(out)


@extractor("glyph_name_legal_ranges", lambda v: [
    "(* postProcessor.GLYPH_NAME_INVALID_CHARS: characters that survive (as code point ranges) *)",
    "Definition glyph_name_legal_ranges : list (Z * Z) := [%s]." % "; ".join("(%d, %d)" % (a, b) for a, b in v)])
def _legal_ranges():
    v = _class_attr(parse("postProcessor.py"), "PostProcessor", "GLYPH_NAME_INVALID_CHARS")
    if not (isinstance(v, ast.Call) and isinstance(v.args[0], ast.Constant)):
        raise LookupError("GLYPH_NAME_INVALID_CHARS")
    return _charclass_ranges(v.args[0].value)


@extractor("max_glyph_name_length", lambda v: [
    "Definition max_glyph_name_length : nat := %d%%nat." % v])
def _max_len():
    return lit(_class_attr(parse("postProcessor.py"), "PostProcessor", "MAX_GLYPH_NAME_LENGTH"))


@extractor("default_subroutinizer", lambda v: [
    "(* postProcessor.DEFAULT_SUBROUTINIZER_FOR_CFF_VERSION: 0 = cffsubr, 1 = compreffor *)",
    "Definition default_subroutinizer_cff1 : Z := %d." % v["1"],
    "Definition default_subroutinizer_cff2 : Z := %d." % v["2"]])
def _default_subr():
    v = _class_attr(parse("postProcessor.py"), "PostProcessor", "DEFAULT_SUBROUTINIZER_FOR_CFF_VERSION")
    out = {}
    for k, val in zip(v.keys, v.values):
        out[str(lit(k))] = {"CFFSUBR": 0, "COMPREFFOR": 1}[val.attr]
    return out


@extractor("cff_optimization", lambda v: [
    "(* constants.CFFOptimization *)",
    "Definition cffopt_none : Z := %d." % v["NONE"],
    "Definition cffopt_specialize : Z := %d." % v["SPECIALIZE"],
    "Definition cffopt_subroutinize : Z := %d." % v["SUBROUTINIZE"]])
def _cffopt():
    tree = parse("constants.py")
    for node in ast.walk(tree):
        if isinstance(node, ast.ClassDef) and node.name == "CFFOptimization":
            return {st.targets[0].id: lit(st.value) for st in node.body if isinstance(st, ast.Assign)}
    raise LookupError("CFFOptimization")


# ---------------------------------------------------------------- C16
@extractor("ps_name_chars", lambda v: [
    "(* fontInfoData._postscriptFontNameExceptions / _postscriptFontNameAllowed *)",
    "Definition ps_exceptions : list Z := %s." % gallina(v["exceptions"]),
    "Definition ps_allowed_lo : Z := %d." % v["lo"],
    "Definition ps_allowed_hi : Z := %d." % v["hi"]])
def _ps_chars():
    tree = parse("fontInfoData.py")
    exc = find_assign(tree, "_postscriptFontNameExceptions")
    if not (isinstance(exc, ast.Call) and exc.func.id == "set"):
        raise LookupError("exceptions")
    allowed = find_assign(tree, "_postscriptFontNameAllowed")
    rng = None
    for n in ast.walk(allowed):
        if isinstance(n, ast.Call) and isinstance(n.func, ast.Name) and n.func.id == "range":
            rng = [lit(a) for a in n.args]
    if rng is None or len(rng) != 2:
        raise LookupError("allowed range")
    return {"exceptions": sorted(ord(c) for c in lit(exc.args[0])), "lo": rng[0], "hi": rng[1] - 1}


def _fallback_factor(tree, fn_name):
    """the decimal literal k in `otRound(upm * k)` style fallbacks, as a fraction string"""
    from fractions import Fraction
    fn = find_func(tree, fn_name)
    for n in ast.walk(fn):
        if isinstance(n, ast.BinOp) and isinstance(n.op, ast.Mult) and isinstance(n.right, ast.Constant) \
                and isinstance(n.right.value, float):
            f = Fraction(str(n.right.value))
            return [f.numerator, f.denominator]
    raise LookupError(fn_name)


@extractor("info_fallback_factors", lambda v: [
    "(* fontInfoData special fallbacks: decimal factors of unitsPerEm, as exact fractions *)"] + [
    "Definition %s_num : Z := %d. Definition %s_den : positive := %d%%positive." % (k, a, k, b) for k, (a, b) in sorted(v.items())])
def _factors():
    tree = parse("fontInfoData.py")
    return {"f_ascender": _fallback_factor(tree, "ascenderFallback"),
            "f_descender": _fallback_factor(tree, "descenderFallback"),
            "f_capheight": _fallback_factor(tree, "capHeightFallback"),
            "f_xheight": _fallback_factor(tree, "xHeightFallback"),
            "f_linegap": _fallback_factor(tree, "openTypeOS2TypoLineGapFallback")}


@extractor("static_fallback_numbers", lambda v: [
    "(* fontInfoData.staticFallbackData (numeric entries used by the model) *)"] + [
    "Definition static_%s : Z := %d." % (k, x) for k, x in sorted(v.items())])
def _static():
    tree = parse("fontInfoData.py")
    d = find_assign(tree, "staticFallbackData")
    out = {}
    for kw in d.keywords:
        if kw.arg in ("unitsPerEm", "openTypeHheaLineGap", "italicAngle", "versionMajor", "versionMinor",
                      "openTypeOS2WeightClass", "openTypeOS2WidthClass", "openTypeHeadLowestRecPPEM"):
            out[kw.arg] = lit(kw.value)
    if len(out) != 8:
        raise LookupError("staticFallbackData")
    return out


def gallina(v):
    if isinstance(v, bool):
        return "true" if v else "false"
    if isinstance(v, int):
        return "(%d)%%Z" % v
    if isinstance(v, str):
        return "[" + "; ".join(str(ord(c)) for c in v) + "]%Z"
    if isinstance(v, (list, tuple)):
        return "[" + "; ".join(gallina(x) for x in v) + "]"
    if v is None:
        return "None"
    raise TypeError(v)


def main():
    snap = json.load(open(SNAP)) if os.path.exists(SNAP) else {}
    values, missing = {}, []
    for name, fn in EXTRACTORS.items():
        try:
            values[name] = fn()
        except Exception as e:  # fail-soft on location
            if name not in snap:
                raise
            values[name] = snap[name]
            missing.append("%s (%s: %s)" % (name, type(e).__name__, e))
    if "--snapshot" in sys.argv:
        json.dump(values, open(SNAP, "w"), indent=1, sort_keys=True)
    changed = sorted(k for k in values if snap.get(k) != values[k])
    L = []
    A = L.append
    A("(* GENERATED by harness/consts_from_source.py from /repo/Lib/ufo2ft -- do not edit. *)")
    A("From Coq Require Import ZArith List.")
    A("Import ListNotations.")
    A("Open Scope Z_scope.")
    A("")
    for name in EXTRACTORS:
        for line in EMITTERS[name](values[name]):
            A(line)
    text = "\n".join(L) + "\n"
    old = open(OUT).read() if os.path.exists(OUT) else None
    if old != text:
        os.makedirs(os.path.dirname(OUT), exist_ok=True)
        with open(OUT, "w") as f:
            f.write(text)
    json.dump({"missing": missing, "changed_vs_snapshot": changed}, sys.stdout)
    print()


if __name__ == "__main__":
    main()
