#!/bin/bash
# usage: mutest.sh <patch-file> Cxx [Cyy ...]  -- applies the patch to a scratch worktree of /repo and runs the checks of an
# ISOLATED COPY of /verif (its own evidence, generated Coq files and build) against it, so that nothing of a mutant run is
# left behind in /verif and several runs can go on side by side.
# env: MUT_SED="s/a/b/" MUT_FILE=Lib/ufo2ft/util.py (alternative to a patch); TIER=quick|thorough
set -u
HERE="$(cd "$(dirname "$0")/.." && pwd)"
T=/tmp/vmut.$$
W=$T/repo
mkdir -p $T
trap 'git -C /repo worktree remove --force $W >/dev/null 2>&1; rm -rf $T; git -C /repo worktree prune >/dev/null 2>&1' EXIT
git -C /repo worktree add --detach -f $W >/dev/null 2>&1 || { echo "worktree failed"; exit 2; }
rsync -a --exclude .git --exclude .work --exclude replays --exclude __pycache__ "$HERE/" $T/verif/
if [ -n "${MUT_SED:-}" ]; then
  sed -i "$MUT_SED" $W/$MUT_FILE
else
  git -C $W apply "$1" || { echo "patch failed"; exit 2; }
  shift
fi
git -C $W diff --stat | tail -1
for p in "$@"; do
  UFO2FT_REPO=$W $T/verif/check $p --tier ${TIER:-quick} 2>&1 | tail -3
done
