#!/bin/bash
# usage: mutest.sh <patch-file-or-sed-expr-file> Cxx [Cyy ...]  -- applies patch to a scratch worktree of /repo and runs checks there
# env: MUT_SED="s/a/b/" MUT_FILE=Lib/ufo2ft/util.py (alternative to a patch)
set -u
W=/tmp/mut.$$
git -C /repo worktree add --detach -f $W >/dev/null 2>&1 || { echo "worktree failed"; exit 2; }
EVBAK=/verif/.work/evidence.bak.$$
mkdir -p /verif/.work && cp -r /verif/evidence $EVBAK
# mutant runs must not leave their evidence (or regenerated constants) behind
trap 'git -C /repo worktree remove --force $W >/dev/null 2>&1; rm -rf $W; rm -rf /verif/evidence; mv $EVBAK /verif/evidence; (cd /verif && PYTHONPATH=/repo/Lib:/verif /venv/bin/python harness/consts_from_source.py >/dev/null 2>&1; PYTHONPATH=/repo/Lib:/verif /venv/bin/python harness/pipeline_from_source.py >/dev/null 2>&1)' EXIT
if [ -n "${MUT_SED:-}" ]; then
  sed -i "$MUT_SED" $W/$MUT_FILE
else
  git -C $W apply "$1" || { echo "patch failed"; exit 2; }
  shift
fi
git -C $W diff --stat | tail -1
for p in "$@"; do
  UFO2FT_REPO=$W /verif/check $p --tier ${TIER:-quick} 2>&1 | tail -3
done
