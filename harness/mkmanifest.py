#!/usr/bin/env python3
"""Writes /verif/MANIFEST.json from the property modules that exist."""
import importlib, json, os, sys
VERIF = os.path.dirname(os.path.dirname(os.path.abspath(__file__)))
sys.path.insert(0, VERIF)
ALL = ["C%02d" % i for i in range(1, 21)]
PENDING_REASON = "check not built yet in this session (design in DESIGN.md section 2); not claimed until its model, theorems and correspondence run"

checks, na = [], []
for pid in ALL:
    path = os.path.join(VERIF, "harness", "props", pid.lower() + ".py")
    if not os.path.exists(path):
        na.append({"property_id": pid, "reason": PENDING_REASON})
        continue
    src = open(path).read()
    ns = {}
    # read the metadata constants without importing ufo2ft
    import ast
    for node in ast.parse(src).body:
        if isinstance(node, ast.Assign) and isinstance(node.targets[0], ast.Name) and node.targets[0].id in (
                "LEVEL_TEXT", "LEVEL_NOTE", "TECHNIQUE", "DESIGN_REF", "CATEGORY"):
            ns[node.targets[0].id] = ast.literal_eval(node.value)
    checks.append({
        "property_id": pid,
        "quick_cmd": "./check %s --tier quick" % pid,
        "thorough_cmd": "./check %s --tier thorough" % pid,
        "evidence_file": "/verif/evidence/%s.json" % pid,
        "replay_cmd_template": "./check %s --replay {path}" % pid,
        "engine": "coq-model+correspondence",
        "level_claimed": {"category": ns.get("CATEGORY", "proof"), "text": ns["LEVEL_TEXT"],
                          "design_ref": ns.get("DESIGN_REF", "DESIGN.md section 2, " + pid)},
        "level_note": ns["LEVEL_NOTE"],
        "technique": ns.get("TECHNIQUE", "Coq 8.16 theorems about a hand-written Gallina model + vm_compute correspondence with the implementation"),
    })
m = {
    "version": 1,
    "setup_cmd": "cd /verif && ./setup.sh",
    "hooks": {"guard": "UFO2FT_VERIF", "enable": "no source hooks are used; checks import ufo2ft from /repo/Lib (PYTHONPATH) as it is on disk",
              "baseline_off_cmd": "cd /repo && /venv/bin/python -m pytest -q -p no:cacheprovider --timeout=900",
              "source_commits": [], "add_only": True},
    "engines": [{"name": "coq-model+correspondence", "path": "/verif/coq + /verif/harness",
                 "serves_properties": [c["property_id"] for c in checks],
                 "kind_free_text": "Coq 8.16.1 development (hand-written Gallina models, executable specs, theorems) + Python harness that regenerates constants from /repo, runs the real ufo2ft and evaluates model and spec on the same cases with vm_compute"}],
    "checks": checks,
    "not_applicable": na,
    "notes": "See DESIGN.md. Every check: (1) regenerates Generated/Constants.v from /repo source and rebuilds the Coq development, (2) requires Properties/<id>.v to compile with every theorem 'Closed under the global context', (3) runs ufo2ft from /repo/Lib on generated cases and evaluates the Gallina model and spec on the same cases inside Coq.",
}
json.dump(m, open(os.path.join(VERIF, "MANIFEST.json"), "w"), indent=1)
print("claimed:", [c["property_id"] for c in checks])
