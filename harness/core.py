"""Shared machinery of every check: Coq build, proof status, evaluating the
Gallina model/spec with vm_compute on generated cases, verdict protocol
(DESIGN.md 1.4) and the evidence file."""
import fcntl, hashlib, json, os, random, re, shutil, subprocess, sys, time, traceback
from concurrent.futures import ThreadPoolExecutor

VERIF = os.path.dirname(os.path.dirname(os.path.abspath(__file__)))
COQ = os.path.join(VERIF, "coq")
REPO = os.environ.get("UFO2FT_REPO", "/repo")
PY = "/venv/bin/python"
NPROC = min(16, os.cpu_count() or 4)

ALLOWED_AXIOMS = set()  # none: every property theorem must be closed under the global context

FORBIDDEN = re.compile(
    r"\b(Admitted|admit|Axiom|Axioms|Parameter|Parameters|Conjecture|Conjectures|Admit Obligations|"
    r"Unset Guard Checking|Unset Positivity Checking|Unset Universe Checking|bypass_check|"
    r"type-in-type|impredicative-set|native_compute)\b")

# source-to-Gallina translators run before every build (besides the constants reader and the pipeline translator)
TRANSLATORS = ["info_from_source.py", "imp_from_source.py", "fea_from_source.py", "name_from_source.py"]

TRUSTED_BASE = [
    "Coq 8.16.1 kernel (coqc); vm_compute used for case evaluation and closed witnesses; no native_compute",
    "axioms: none (every property theorem prints 'Closed under the global context')",
    "harness/consts_from_source.py (AST reader that regenerates Generated/Constants.v from /repo)",
    "harness/pipeline_from_source.py (AST translator: preProcessor.initDefaultFilters -> Generated/Pipelines.v; its output is compared with the real pre-processor objects over all option combinations in C01 / C02)",
    "harness/info_from_source.py (AST translator: the vertical-metric fallback functions, getAttrWithFallback, specialFallbacks / staticFallbackData of fontInfoData.py -> Generated/InfoFallbacks.v, fail-closed; proved equal to the hand model that the C16 correspondence runs against the real functions, and to the documented fallbacks)",
    "harness/imp_from_source.py (AST translator for an imperative fragment -- lists / sets of names and insertion-ordered dicts mutated inside if / nested for, continue, raise: util.makeOfficialGlyphOrder and util.makeUnicodeToGlyphNameMapping, and the variation-sequence loop inside BaseOutlineCompiler.setupTable_cmap -> Generated/Imp.v, fail-closed; proved equal to the hand models of Order/GlyphOrder.v and Order/Uvs.v)",
    "harness/fea_from_source.py (AST translator for two functions that build / read lists of feaLib statements: featureWriters/ast.addLookupReferences and BaseFeatureWriter._contextAt -> Generated/FeaGen.v, fail-closed; proved equal to the hand models of Fea/LookupRefs.v and Fea/Context.v)",
    "harness/name_from_source.py (AST translator for a dict-comprehension fragment: InfoCompiler.setupTable_name, the merge of a variable font's overridden name records into the default source's name table -> Generated/NameMergeGen.v, fail-closed; proved equal to the hand model of Info/NameMerge.v)",
    "Python harness: generators, font builders, observers, Gallina term printer (harness/gterm.py)",
    "fontTools/ufoLib2/defcon behaviour is modelled or observed, not verified",
]


def sh(cmd, timeout=600, cwd=None, env=None):
    p = subprocess.run(cmd, shell=isinstance(cmd, str), cwd=cwd, env=env, timeout=timeout,
                       stdout=subprocess.PIPE, stderr=subprocess.STDOUT, text=True)
    return p.returncode, p.stdout


# ---------------------------------------------------------------- Coq build
_build_cache = {}


def ensure_build():
    """regenerate constants from /repo, then incremental full .vo build (make -k).
    Serialised with flock so concurrent checks do not race."""
    if "done" in _build_cache:
        return _build_cache["done"]
    os.makedirs(os.path.join(VERIF, ".work"), exist_ok=True)
    with open(os.path.join(COQ, ".lock"), "w") as lk:
        fcntl.flock(lk, fcntl.LOCK_EX)
        rc, out = sh([PY, os.path.join(VERIF, "harness", "consts_from_source.py")], timeout=120)
        consts = {"missing": ["<reader crashed>"], "changed_vs_snapshot": []}
        if rc == 0:
            try:
                consts = json.loads(out.strip().splitlines()[-1])
            except Exception:
                pass
        else:
            consts["error"] = out[-2000:]
        # ... and the default filter pipelines translated from preProcessor.py (fail-closed: UnknownFilter)
        rc_p, out_p = sh([PY, os.path.join(VERIF, "harness", "pipeline_from_source.py")], timeout=120)
        try:
            consts["pipeline_unrecognised"] = json.loads(out_p.strip().splitlines()[-1])["unrecognised"] if rc_p == 0 else ["<translator crashed> " + out_p[-500:]]
        except Exception:
            consts["pipeline_unrecognised"] = ["<translator output unreadable>"]
        # ... and the further source-to-Gallina translators (each fail-closed; what they could not translate is recorded)
        consts["translators"] = {}
        for tr in TRANSLATORS:
            rc_t, out_t = sh([PY, os.path.join(VERIF, "harness", tr)], timeout=120)
            consts["translators"][tr] = {"rc": rc_t, "untranslated": [l for l in out_t.splitlines() if l.startswith("UNTRANSLATED")],
                                         "summary": (out_t.strip().splitlines() or [""])[-1][:300]}
        mk = os.path.join(COQ, "Makefile")
        cp = os.path.join(COQ, "_CoqProject")
        if not os.path.exists(mk) or os.path.getmtime(mk) < os.path.getmtime(cp):
            sh("coq_makefile -f _CoqProject -o Makefile", cwd=COQ, timeout=60)
        t0 = time.time()
        rc, out = sh("make -k -j%d 2>&1" % NPROC, cwd=COQ, timeout=3000)
        res = {"rc": rc, "log": out[-6000:], "consts": consts, "wall_s": round(time.time() - t0, 1)}
    _build_cache["done"] = res
    return res


def forbidden_scan():
    hits = []
    for root, _, files in os.walk(os.path.join(COQ, "theories")):
        for f in files:
            if f.endswith(".v"):
                p = os.path.join(root, f)
                for i, line in enumerate(open(p, encoding="utf-8"), 1):
                    code = re.sub(r"\(\*.*?\*\)", "", line)
                    if FORBIDDEN.search(code):
                        hits.append("%s:%d: %s" % (os.path.relpath(p, VERIF), i, line.strip()))
    cp = open(os.path.join(COQ, "_CoqProject")).read()
    if re.search(r"type-in-type|impredicative-set|-vos|-vok", cp):
        hits.append("_CoqProject: forbidden flag")
    return hits


def proof_status(pid):
    """Re-compile Properties/<pid>.v, count theorems/examples and closed Print
    Assumptions.  Returns dict(obligations, discharged, ok, detail)."""
    vfile = os.path.join(COQ, "theories", "Properties", pid + ".v")
    if not os.path.exists(vfile):
        return {"obligations": 0, "discharged": 0, "ok": False, "detail": "no Properties/%s.v" % pid, "theorems": []}
    src = open(vfile).read()
    src_nc = re.sub(r"\(\*.*?\*\)", "", src, flags=re.S)
    thms = re.findall(r"^\s*(?:Theorem|Example)\s+(\w+)", src_nc, flags=re.M)
    prints = re.findall(r"^\s*Print Assumptions\s+(\w+)\s*\.", src_nc, flags=re.M)
    rc, out = sh("make theories/Properties/%s.vo" % pid, cwd=COQ, timeout=1800)
    detail = ""
    ok = rc == 0 and os.path.exists(vfile + "o")
    discharged = 0
    if ok:
        work = os.path.join(VERIF, ".work", "pa-%s-%d" % (pid, os.getpid()))
        os.makedirs(work, exist_ok=True)
        try:
            shutil.copy(vfile, os.path.join(work, "PA.v"))
            rc2, out2 = sh("coqc -Q %s/theories U2F -w none PA.v" % COQ, cwd=work, timeout=900)
        finally:
            shutil.rmtree(work, ignore_errors=True)
        closed = out2.count("Closed under the global context")
        axioms = re.findall(r"^Axioms:\s*$", out2, flags=re.M)
        if rc2 != 0:
            ok, detail = False, out2[-1500:]
        elif axioms or closed != len(prints) or set(prints) != set(thms):
            ok = False
            detail = "Print Assumptions: %d closed of %d printed, %d theorems; output tail: %s" % (
                closed, len(prints), len(thms), out2[-800:])
        discharged = min(closed, len(thms))
    else:
        detail = out[-2500:]
    forb = forbidden_scan()
    if forb:
        ok, detail = False, "forbidden constructs: " + "; ".join(forb[:5])
    return {"obligations": len(thms), "discharged": discharged if ok else min(discharged, max(0, len(thms) - 1)),
            "ok": ok, "detail": detail, "theorems": thms}


# ---------------------------------------------------------------- vm_compute evaluation
HEADER = """From Coq Require Import ZArith QArith List Bool.
Import ListNotations.
%s
Open Scope Z_scope.
Set Printing Depth 1000000.
Set Printing Width 1000000.
"""


def _coqc(work, name, text, timeout):
    path = os.path.join(work, name + ".v")
    with open(path, "w") as f:
        f.write(text)
    return sh("coqc -Q %s/theories U2F -w none %s.v" % (COQ, name), cwd=work, timeout=timeout)


def coq_eval(work, imports, fn, cases, chunk=120, timeout=900, tag="Cases"):
    """cases: list of Gallina terms; fn: Gallina function term : case -> Z.
    Returns list of ints (None where the shard failed) and list of error strings."""
    if not cases:
        return [], []
    shards = [cases[i:i + chunk] for i in range(0, len(cases), chunk)]
    results = [None] * len(shards)
    errors = []

    def run(i):
        body = HEADER % imports
        for j, c in enumerate(shards[i]):
            body += "Definition c%d := %s.\n" % (j, c)
        body += "Definition f := %s.\n" % fn
        body += "Eval vm_compute in [%s].\n" % "; ".join("f c%d" % j for j in range(len(shards[i])))
        rc, out = _coqc(work, "%s_%d" % (tag, i), body, timeout)
        m = re.search(r"=\s*\[([^\]]*)\]\s*:\s*list Z", out.replace("\n", " "))
        if rc != 0 or not m:
            return None, "shard %d: rc=%d %s" % (i, rc, out[-1500:])
        vals = [int(x.strip().strip("()")) for x in m.group(1).split(";") if x.strip()]
        if len(vals) != len(shards[i]):
            return None, "shard %d: %d results for %d cases" % (i, len(vals), len(shards[i]))
        return vals, None

    with ThreadPoolExecutor(max_workers=NPROC) as ex:
        for i, (vals, err) in enumerate(ex.map(run, range(len(shards)))):
            results[i] = vals
            if err:
                errors.append(err)
    flat = []
    for i, r in enumerate(results):
        flat.extend(r if r is not None else [None] * len(shards[i]))
    return flat, errors


def coq_show(work, imports, expr, timeout=300, tag="Show"):
    """Eval vm_compute in expr, return printed text (for replay files)."""
    rc, out = _coqc(work, tag, (HEADER % imports) + "Eval vm_compute in (%s).\n" % expr, timeout)
    return out.strip()[-6000:]


# ---------------------------------------------------------------- run context
class Ctx:
    def __init__(self, pid, tier, seed, replay=None):
        self.pid, self.tier, self.seed, self.replay = pid, tier, seed, replay
        self.t0 = time.time()
        self.work = os.path.join(VERIF, ".work", "%s-%d" % (pid, os.getpid()))
        shutil.rmtree(self.work, ignore_errors=True)
        os.makedirs(self.work)
        self.rng = random.Random(seed)
        self.evaluations = 0
        self.nontrivial = set()
        self.samples = []
        self.hist = {}
        self.corr_mismatches = []   # model != impl
        self.spec_failures = []     # spec false on impl (or direct check failed)
        self.infra_errors = []
        self.notes = {}
        self.scale = 1
        kf = os.path.join(VERIF, "KNOWN_FINDINGS.json")
        self.known = json.load(open(kf)) if os.path.exists(kf) else {"findings": []}
        self.known_hit = {}

    # -- bookkeeping
    def quick(self):
        return self.tier == "quick"

    def budget(self, quick, thorough):
        n = quick if self.quick() else thorough
        return int(n * self.scale)

    def subrng(self, *key):
        h = hashlib.sha256(repr((self.seed, self.scale) + key).encode()).digest()
        return random.Random(int.from_bytes(h[:8], "big"))

    def count(self, n=1):
        self.evaluations += n

    def nontriv(self, key):
        self.nontrivial.add(key if isinstance(key, (str, int, tuple)) else repr(key))

    def klass(self, name, n=1):
        self.hist[name] = self.hist.get(name, 0) + n

    def sample(self, obj, limit=4):
        if len(self.samples) < limit:
            self.samples.append(obj)

    def corr_mismatch(self, case, detail, level="structural"):
        self.corr_mismatches.append({"level": level, "case": case, "detail": detail})

    def spec_failure(self, case, detail, signature=None):
        """the implementation's observation violates the property on `case`"""
        for f in self.known.get("findings", []):
            if f.get("kind") == "known" and f.get("property") == self.pid and signature is not None \
                    and f.get("signature") == signature:
                self.known_hit.setdefault(f["id"], {"finding": f, "n": 0, "example": {"case": case, "detail": detail}})
                self.known_hit[f["id"]]["n"] += 1
                return
        self.spec_failures.append({"case": case, "detail": detail, "signature": signature})

    def infra(self, msg):
        self.infra_errors.append(msg)

    # -- coq helpers bound to this run's work dir
    def coq_eval(self, imports, fn, cases, **kw):
        vals, errs = coq_eval(self.work, imports, fn, cases, **kw)
        for e in errs:
            self.infra(e)
        return vals

    def coq_show(self, imports, expr, **kw):
        return coq_show(self.work, imports, expr, **kw)

    def cleanup(self):
        shutil.rmtree(self.work, ignore_errors=True)


def write_replay(ctx, kind, payload):
    d = os.path.join(VERIF, "replays")
    os.makedirs(d, exist_ok=True)
    path = os.path.join(d, "%s-%s-%d-%d.json" % (ctx.pid, kind, ctx.seed, int(time.time())))
    with open(path, "w") as f:
        json.dump(payload, f, indent=1, default=str)
    return path


def run_check(mod, tier, seed, replay=None):
    """mod: property module with PID, RULE, LEVEL_TEXT, explore(ctx); returns exit code"""
    pid = mod.PID
    ctx = Ctx(pid, tier, seed, replay)
    build = {"rc": -1, "log": "", "consts": {}}
    proof = {"obligations": 0, "discharged": 0, "ok": False, "detail": "not run", "theorems": []}
    lines = []
    try:
        build = ensure_build()
        proof = proof_status(pid)
        if tier == "thorough" and proof["ok"]:
            # the independent checker re-checks the compiled property file and everything it depends on and lists the axioms
            t0 = time.time()
            rc_chk, out_chk = sh("coqchk -silent -o -Q theories U2F U2F.Properties.%s" % pid, cwd=COQ, timeout=3000)
            m = re.search(r"\* Axioms:\s*(.*?)\n\s*\n", out_chk + "\n\n", flags=re.S)
            axioms = (m.group(1).strip() if m else "?")
            ctx.notes["coqchk"] = {"rc": rc_chk, "axioms": axioms, "wall_s": round(time.time() - t0, 1)}
            if rc_chk != 0 or axioms != "<none>":
                proof["ok"] = False
                proof["detail"] = "coqchk: rc=%d axioms=%s\n%s" % (rc_chk, axioms, out_chk[-1500:])
        consts_missing = build["consts"].get("missing", [])
        if consts_missing:
            ctx.scale = 3  # fail-soft on location: widen the correspondence budget
        try:
            mod.explore(ctx)
        except Exception:
            ctx.infra("explore crashed: " + traceback.format_exc()[-3000:])
        proof_broken = not proof["ok"]
        corr_broken = bool(ctx.corr_mismatches) or bool(ctx.infra_errors)
        if (proof_broken or corr_broken) and not ctx.spec_failures and replay is None:
            # widen the search for a concrete failing input (DESIGN 1.4)
            ctx.scale = 8
            ctx.notes["widened"] = True
            try:
                mod.explore(ctx)
            except Exception:
                ctx.infra("widened explore crashed: " + traceback.format_exc()[-3000:])
        for fid, h in sorted(ctx.known_hit.items()):
            lines.append("KNOWN-FINDING: property=%s %s (%s; %d case(s) this run)" % (
                pid, h["finding"]["what"], fid, h["n"]))
        rc = 0
        if ctx.spec_failures:
            first = ctx.spec_failures[0]
            path = write_replay(ctx, "violation", {
                "property": pid, "kind": "failing-input", "seed": seed, "tier": tier,
                "case": first["case"], "detail": first["detail"], "signature": first["signature"],
                "n_failures": len(ctx.spec_failures),
                "others": ctx.spec_failures[1:6],
                "proof_ok": proof["ok"], "proof_detail": proof["detail"][-1500:],
                "corr_mismatches": ctx.corr_mismatches[:3]})
            lines.append("VIOLATION property=%s replay=%s" % (pid, path))
            rc = 1
        elif proof_broken or corr_broken:
            what = []
            if proof_broken:
                what.append({"broken": "proof", "theorems": proof.get("theorems"), "detail": proof["detail"][-3000:],
                             "build_log": build["log"][-3000:]})
            if ctx.corr_mismatches:
                what.append({"broken": "correspondence", "first": ctx.corr_mismatches[0],
                             "n": len(ctx.corr_mismatches)})
            if ctx.infra_errors:
                what.append({"broken": "harness/model evaluation", "errors": ctx.infra_errors[:3]})
            path = write_replay(ctx, "unproved", {
                "property": pid, "kind": "no-failing-input-found", "seed": seed, "tier": tier, "what": what})
            lines.append("VIOLATION property=%s replay=%s no-failing-input-found" % (pid, path))
            rc = 1
    finally:
        ctx.cleanup()
    wall = round(time.time() - ctx.t0, 2)
    ev = {
        "property_id": pid, "tier": tier, "seed": seed, "level": "proof",
        "coverage": {
            "obligations": proof["obligations"], "discharged": proof["discharged"],
            "checker_cmd": "cd /verif/coq && make theories/Properties/%s.vo  (coqc 8.16.1, full .vo build; Print Assumptions under every theorem)" % pid,
            "trusted_base": TRUSTED_BASE + list(getattr(mod, "TRUSTED_EXTRA", [])),
            "theorems": proof.get("theorems", []),
            "proof_ok": proof["ok"],
            "evaluations": ctx.evaluations,
            "distinct_nontrivial": len(ctx.nontrivial),
            "rule": getattr(mod, "RULE", ""),
            "samples": ctx.samples or [{"note": "no cases generated"}],
            "class_histogram": ctx.hist,
            "correspondence_mismatches": len(ctx.corr_mismatches),
            "spec_failures_on_implementation": len(ctx.spec_failures),
            "known_findings_hit": {k: v["n"] for k, v in ctx.known_hit.items()},
            "constants_missing_in_source": build["consts"].get("missing", []),
            "constants_changed_vs_snapshot": build["consts"].get("changed_vs_snapshot", []),
            "translators": build["consts"].get("translators", {}),
            "infra_errors": ctx.infra_errors[:5],
            "notes": ctx.notes,
        },
        "assumptions": list(getattr(mod, "ASSUMPTIONS", [])),
        "wall_s": wall,
        "violations": len(ctx.spec_failures) + (1 if (rc == 1 and not ctx.spec_failures) else 0),
    }
    os.makedirs(os.path.join(VERIF, "evidence"), exist_ok=True)
    with open(os.path.join(VERIF, "evidence", pid + ".json"), "w") as f:
        json.dump(ev, f, indent=1, default=str)
    for ln in lines:
        print(ln)
    print("%s tier=%s seed=%d: %s; proof %d/%d; %d evaluations (%d non-trivial); corr-mismatch=%d spec-fail=%d known=%d; %.1fs" % (
        pid, tier, seed, "FAIL" if rc else "ok", proof["discharged"], proof["obligations"], ctx.evaluations,
        len(ctx.nontrivial), len(ctx.corr_mismatches), len(ctx.spec_failures), sum(v["n"] for v in ctx.known_hit.values()), wall))
    return rc
