"""Python values -> Gallina terms (text).  The cases files open Z_scope, so bare
numerals are Z; nat and positive get explicit scope keys."""
from fractions import Fraction


def z(n):
    n = int(n)
    return "(%d)" % n if n < 0 else "%d" % n


def nat(n):
    return "%d%%nat" % int(n)


def q(v):
    """exact rational; floats must be exactly representable (they always are: a
    float IS a dyadic rational) -- Fraction(float) is exact."""
    f = v if isinstance(v, Fraction) else Fraction(v)
    return "(Qmake %s %d%%positive)" % (z(f.numerator), f.denominator)


def s(text):
    """str -> list Z of code points"""
    if text is None:
        raise TypeError("None string")
    if not text:
        return "(@nil Z)"
    return "[" + ";".join(str(ord(c)) for c in text) + "]"


def b(v):
    return "true" if v else "false"


def lst(items, ty=None):
    items = list(items)
    if not items:
        return "(@nil %s)" % ty if ty else "[]"
    return "[" + "; ".join(items) + "]"


def tup(*items):
    return "(" + ", ".join(items) + ")"


def opt(v, ty=None):
    if v is None:
        return "(@None %s)" % ty if ty else "None"
    return "(Some %s)" % v


def ctor(name, *args):
    if not args:
        return name
    return "(" + name + " " + " ".join(args) + ")"
