#!/bin/bash
# usage: robust.sh [id ...]  -- every stored seeded change (default: all) against two more VERIF_SEEDs (1 and 2): a change
# that is detected only by the luck of one seed shows up here as MISSED.  JOBS runs side by side (default 4).
cd "$(dirname "$0")/.."
ids=("$@"); [ ${#ids[@]} -eq 0 ] && ids=($(ls seeded))
one() {
  s=$1; id=$2
  prop=$(python3 -c "import json;print(json.load(open('seeded/$id/meta.json'))['property'])")
  out=$(VERIF_SEED=$s harness/mutest.sh "$PWD/seeded/$id/patch.diff" $prop 2>&1 | grep -v "^KNOWN-FINDING")
  if echo "$out" | grep -q "^VIOLATION property=$prop"; then v=DETECTED; else v=MISSED; fi
  echo "seed=$s $id $v"
}
export -f one
for s in 1 2; do for id in "${ids[@]}"; do echo "$s $id"; done; done | xargs -P ${JOBS:-4} -L1 bash -c 'one $0 $1' | tee .work/robust.last
echo ROBUST-DONE
! grep -q MISSED .work/robust.last
