"""The translator's output (Generated/Pipelines.v) against the real pre-processor objects, over ALL combinations of the
options the two initDefaultFilters read (and inplace, and a colour / plain font): the default filter list of
OTFPreProcessor / TTFPreProcessor -- classes in order, the boolean arguments, whether a backend / an include restriction /
the conversion error was passed on -- must be what the Gallina function translated from the same source computes."""
import itertools
from harness import gterm as G
from harness.fonts import build_font

KIND = {"ExplodeColorLayerGlyphsFilter": "ExplodeColorLayerGlyphs", "DecomposeComponentsFilter": "DecomposeComponents",
        "FlattenComponentsFilter": "FlattenComponents", "RemoveOverlapsFilter": "RemoveOverlaps",
        "CubicToQuadraticFilter": "CubicToQuadratic", "ReverseContourDirectionFilter": "ReverseContourDirection"}
FIELDS = ["removeOverlaps", "overlapsBackend_set", "flattenComponents", "convertCubics", "conversionError_set", "allQuadratic",
          "reverseDirection", "rememberCurveType", "inplace", "color_font"]


def observe(pp, o, probe):
    out = []
    for f in pp.defaultFilters:
        kind = KIND.get(type(f).__name__, "UnknownFilter")
        args = []
        restricted = not f.include(probe)          # an include restriction: a composite without contours is left out
        if kind == "RemoveOverlaps" and f.options.backend.name == "SKIA_PATHOPS":
            args.append("(K_backend, AOpaque)")
        if kind in ("DecomposeComponents", "ReverseContourDirection") and restricted:
            args.append("(K_include, AOpaque)")
        if kind == "CubicToQuadratic":
            if f.options.conversionError == (0.002 if o["conversionError_set"] else None):
                args.append("(K_conversionError, AOpaque)")
            for k in ("reverseDirection", "rememberCurveType", "allQuadratic"):
                args.append("(K_%s, AB %s)" % (k, G.b(bool(getattr(f.options, k)))))
        out.append("(%s, [%s])" % (kind, "; ".join(args)))
    return "[" + "; ".join(out) + "]"


def pipeline_section(ctx, flavour):
    from ufo2ft.preProcessor import OTFPreProcessor, TTFPreProcessor
    sq = [[(0, 0, "line"), (100, 0, "line"), (100, 100, "line"), (0, 100, "line")]]
    desc = {"glyphs": [{"name": "a", "unicodes": [0x61], "width": 500, "contours": sq, "components": [], "anchors": []},
                       {"name": "b", "unicodes": [0x62], "width": 500, "contours": [], "anchors": [],
                        "components": [("a", (1, 0, 0, 1, 10, 0))]}]}
    cdesc = dict(desc, lib={"com.github.googlei18n.ufo2ft.colorPalettes": [[(1.0, 0.0, 0.0, 1.0)]],
                            "com.github.googlei18n.ufo2ft.colorLayerMapping": [["color1", 0]]})
    used = FIELDS if flavour == "ttf" else ["removeOverlaps", "overlapsBackend_set", "inplace", "color_font"]
    cases, meta = [], []
    for bits in itertools.product([False, True], repeat=len(used)):
        o = dict.fromkeys(FIELDS, False)
        o.update(convertCubics=True, allQuadratic=True, reverseDirection=True, rememberCurveType=True)   # irrelevant for otf
        o.update(dict(zip(used, bits)))
        font = build_font(cdesc if o["color_font"] else desc, ["ufoLib2", "defcon"][sum(bits) % 2])
        if o["color_font"]:
            layer = font.newLayer("color1")
            gl = layer.newGlyph("a"); gl.width = 500
            pen = gl.getPen(); pen.moveTo((0, 0)); pen.lineTo((50, 0)); pen.lineTo((25, 50)); pen.closePath()
        kw = {"removeOverlaps": o["removeOverlaps"], "overlapsBackend": "pathops" if o["overlapsBackend_set"] else None}
        if flavour == "ttf":
            kw.update(flattenComponents=o["flattenComponents"], convertCubics=o["convertCubics"],
                      conversionError=0.002 if o["conversionError_set"] else None, allQuadratic=o["allQuadratic"],
                      reverseDirection=o["reverseDirection"], rememberCurveType=o["rememberCurveType"])
        case = {"preprocessor": flavour, "options": dict(kw, inplace=o["inplace"]), "colour_font": o["color_font"]}
        ctx.count(); ctx.klass("pipeline:" + flavour)
        try:
            pp = (TTFPreProcessor if flavour == "ttf" else OTFPreProcessor)(font, inplace=o["inplace"], **kw)
            obs = observe(pp, o, font["b"])
        except Exception as e:
            ctx.spec_failure(case, "constructing the pre-processor raised %s: %s" % (type(e).__name__, e))
            continue
        # stated without the model: overlap removal, flattening, direction reversal happen exactly when asked for
        names = [type(f).__name__ for f in pp.defaultFilters]
        want = (["ExplodeColorLayerGlyphsFilter"] if o["color_font"] else []) + ["DecomposeComponentsFilter"]
        if flavour == "ttf" and o["flattenComponents"]:
            want.append("FlattenComponentsFilter")
        if o["removeOverlaps"]:
            want.append("RemoveOverlapsFilter")
        if flavour == "ttf":
            want += ["CubicToQuadraticFilter"] if o["convertCubics"] else (["ReverseContourDirectionFilter"] if o["reverseDirection"] else [])
        if names != want:
            ctx.spec_failure(dict(case, default_filters=names, expected=want),
                             "the %s pre-processor's default filters are %r; the options ask for %r" % (flavour.upper(), names, want))
        cases.append("(mkPO %s, (%s : list fcall))" % (" ".join(G.b(o[k]) for k in FIELDS), obs))
        meta.append(dict(case, default_filters=names, observed=obs))
    vals = ctx.coq_eval("From U2F Require Import Base.Prelude Filters.Pipeline Generated.Pipelines.",
                        "fun c : (popts * list fcall) => if pipeline_eqb (%s_default_filters (fst c)) (snd c) then 3 else 2" % flavour,
                        cases, chunk=300, tag="Pipeline" + flavour)
    for v, case in zip(vals, meta):
        if v is not None and v != 3:
            ctx.corr_mismatch(case, "the Gallina %s_default_filters translated from preProcessor.py differs from the filter list "
                                    "of the real pre-processor object" % flavour)
