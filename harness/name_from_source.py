#!/usr/bin/env python3
"""Translator for InfoCompiler.setupTable_name (infoCompiler.py) -- how the name records that a variable font's `public.fontInfo`
override produces (the "temp" table) are merged into the name table of the font built from the default source (the "orig" table)
-- from /repo's current source into Gallina (coq/theories/Generated/NameMerge.v, rewritten on every run).  The translation is
proved equal to the hand model of Info.NameMerge.v, about which the merge theorems are stated.

A name record is identified with its key (nameID, platformID, platEncID, langID) and its string: `n.nameID` ... are the components
of the key the record carries.  Fragment (anything else is fail-closed -> an opaque constant):

  statements   super().setupTable_name()                      (skipped: it builds the temp table, an input here)
               v = self.otf['name'] | v = self.orig_otf['name']   (the two inputs)
               d = {KEY: n for n in t.names}                  KEY a tuple of attributes of n      -> kdict / key projections
               s = {KEY for n in t.names}                                                          -> a list of tuples
               d = {key: n for key, n in d.items() if COND}                                        -> filter
               d.update(e)                                                                         -> fold of kset
               orig.names = list(d.values())                  (last statement: the result)
  COND         key in d | TUPLE in s | TUPLE not in s | not C | C or C | C and C | key[i] < INT | key[i] == INT   (TUPLE of key[i])
"""
import ast, os, sys

REPO = os.environ.get("UFO2FT_REPO", "/repo")
OUT = os.environ.get("NAMEMERGE_OUT") or os.path.join(os.path.dirname(os.path.abspath(__file__)), "..", "coq", "theories", "Generated", "NameMergeGen.v")
FIELDS = ["nameID", "platformID", "platEncID", "langID"]


class Unknown(Exception):
    pass


def coq_string(s):
    return '"' + s.replace('"', "'").replace("\n", " ")[:120] + '"'


def translate():
    tree = ast.parse(open(os.path.join(REPO, "Lib", "ufo2ft", "infoCompiler.py")).read())
    cls = next((n for n in tree.body if isinstance(n, ast.ClassDef) and n.name == "InfoCompiler"), None)
    fn = next((n for n in (cls.body if cls else []) if isinstance(n, ast.FunctionDef) and n.name == "setupTable_name"), None)
    if fn is None:
        raise Unknown("InfoCompiler.setupTable_name not found")
    tables, dicts, sets = {}, {}, {}        # python name -> role / Gallina variable
    lets, result = [], None

    def key_of_record(e, var):
        """tuple of attributes of the comprehension variable -> list of field indices"""
        if not (isinstance(e, ast.Tuple) and all(isinstance(x, ast.Attribute) and isinstance(x.value, ast.Name) and x.value.id == var
                                                   and x.attr in FIELDS for x in e.elts)):
            raise Unknown("key " + ast.unparse(e))
        return [FIELDS.index(x.attr) for x in e.elts]

    def names_of(e):
        if isinstance(e, ast.Attribute) and e.attr == "names" and isinstance(e.value, ast.Name) and e.value.id in tables:
            return tables[e.value.id] + "_"
        raise Unknown("source " + ast.unparse(e))

    def proj(i, k="key_"):
        return "(kf %d%%nat %s)" % (i, k)

    def tuple_of_key(e, keyvar):
        if not (isinstance(e, ast.Tuple) and all(isinstance(x, ast.Subscript) and isinstance(x.value, ast.Name) and x.value.id == keyvar
                                                   and isinstance(x.slice, ast.Constant) and x.slice.value in (0, 1, 2, 3) for x in e.elts)):
            raise Unknown("tuple " + ast.unparse(e))
        return "[" + "; ".join(proj(x.slice.value) for x in e.elts) + "]"

    def cond(e, keyvar):
        if isinstance(e, ast.UnaryOp) and isinstance(e.op, ast.Not):
            return "(negb %s)" % cond(e.operand, keyvar)
        if isinstance(e, ast.BoolOp):
            op = "||" if isinstance(e.op, ast.Or) else "&&"
            return "(" + (" %s " % op).join(cond(v, keyvar) for v in e.values) + ")"
        if isinstance(e, ast.Compare) and len(e.ops) == 1:
            l, o, r = e.left, e.ops[0], e.comparators[0]
            if isinstance(o, (ast.In, ast.NotIn)) and isinstance(r, ast.Name):
                if isinstance(l, ast.Name) and l.id == keyvar and r.id in dicts:
                    c = "(kmem key_ %s_)" % r.id
                elif r.id in sets:
                    c = "(lmem %s %s_)" % (tuple_of_key(l, keyvar), r.id)
                else:
                    raise Unknown("membership " + ast.unparse(e))
                return c if isinstance(o, ast.In) else "(negb %s)" % c
            if isinstance(o, (ast.Lt, ast.Eq)) and isinstance(l, ast.Subscript) and isinstance(l.value, ast.Name) and l.value.id == keyvar \
                    and isinstance(l.slice, ast.Constant) and l.slice.value in (0, 1, 2, 3) \
                    and isinstance(r, ast.Constant) and isinstance(r.value, int) and not isinstance(r.value, bool):
                return "(%s %s %d)" % ("Z.ltb" if isinstance(o, ast.Lt) else "Z.eqb", proj(l.slice.value), r.value)
        raise Unknown("condition " + ast.unparse(e))

    body = fn.body
    if body and isinstance(body[0], ast.Expr) and isinstance(body[0].value, ast.Constant):
        body = body[1:]
    for st in body:
        src = ast.unparse(st)
        if result is not None:
            raise Unknown("statement after the result: " + src.splitlines()[0])
        if src == "super().setupTable_name()":
            continue
        if isinstance(st, ast.Assign) and len(st.targets) == 1 and isinstance(st.targets[0], ast.Name):
            v, val = st.targets[0].id, st.value
            if ast.unparse(val) == "self.otf['name']":
                tables[v] = "temp"; continue
            if ast.unparse(val) == "self.orig_otf['name']":
                tables[v] = "orig"; continue
            if isinstance(val, ast.DictComp) and len(val.generators) == 1 and not val.generators[0].ifs \
                    and isinstance(val.generators[0].target, ast.Name) and isinstance(val.value, ast.Name) \
                    and val.value.id == val.generators[0].target.id:
                idx = key_of_record(val.key, val.generators[0].target.id)
                if idx != [0, 1, 2, 3]:
                    raise Unknown("dict key is not the full record key: " + ast.unparse(val.key))
                lets.append("let %s_ := kdict %s in" % (v, names_of(val.generators[0].iter)))
                dicts[v] = True; continue
            if isinstance(val, ast.SetComp) and len(val.generators) == 1 and not val.generators[0].ifs \
                    and isinstance(val.generators[0].target, ast.Name):
                idx = key_of_record(val.elt, val.generators[0].target.id)
                lets.append("let %s_ := map (fun n_ => [%s]) %s in" % (v, "; ".join(proj(i, "(fst n_)") for i in idx), names_of(val.generators[0].iter)))
                sets[v] = True; continue
            if isinstance(val, ast.DictComp) and len(val.generators) == 1 and len(val.generators[0].ifs) == 1:
                g = val.generators[0]
                ok = (isinstance(g.target, ast.Tuple) and len(g.target.elts) == 2 and all(isinstance(x, ast.Name) for x in g.target.elts)
                      and isinstance(val.key, ast.Name) and isinstance(val.value, ast.Name)
                      and [val.key.id, val.value.id] == [x.id for x in g.target.elts]
                      and isinstance(g.iter, ast.Call) and isinstance(g.iter.func, ast.Attribute) and g.iter.func.attr == "items"
                      and isinstance(g.iter.func.value, ast.Name) and g.iter.func.value.id in dicts and not g.iter.args)
                if not ok:
                    raise Unknown("comprehension " + src.splitlines()[0])
                lets.append("let %s_ := filter (fun kv_ => let key_ := fst kv_ in %s) %s_ in" % (v, cond(g.ifs[0], g.target.elts[0].id), g.iter.func.value.id))
                dicts[v] = True; continue
        if isinstance(st, ast.Expr) and isinstance(st.value, ast.Call) and isinstance(st.value.func, ast.Attribute) \
                and st.value.func.attr == "update" and isinstance(st.value.func.value, ast.Name) and st.value.func.value.id in dicts \
                and len(st.value.args) == 1 and isinstance(st.value.args[0], ast.Name) and st.value.args[0].id in dicts and not st.value.keywords:
            d, e = st.value.func.value.id, st.value.args[0].id
            lets.append("let %s_ := fold_left (fun d_ kv_ => kset (fst kv_) (snd kv_) d_) %s_ %s_ in" % (d, e, d))
            continue
        if isinstance(st, ast.Assign) and len(st.targets) == 1 and isinstance(st.targets[0], ast.Attribute) and st.targets[0].attr == "names" \
                and isinstance(st.targets[0].value, ast.Name) and tables.get(st.targets[0].value.id) == "orig":
            v = st.value
            if isinstance(v, ast.Call) and isinstance(v.func, ast.Name) and v.func.id == "list" and len(v.args) == 1 \
                    and isinstance(v.args[0], ast.Call) and isinstance(v.args[0].func, ast.Attribute) and v.args[0].func.attr == "values" \
                    and isinstance(v.args[0].func.value, ast.Name) and v.args[0].func.value.id in dicts:
                result = v.args[0].func.value.id + "_"
                continue
        raise Unknown("statement " + src.splitlines()[0])
    if result is None or sorted(tables.values()) != ["orig", "temp"]:
        raise Unknown("no result / inputs")
    return ("Definition tr_name_merge (temp_ orig_ : list (nkey * str)) : list (nkey * str) :=\n  " + "\n  ".join(lets) + "\n  " + result + ".")


PRELUDE = """(* GENERATED on every run by harness/name_from_source.py from /repo's current source -- do not edit. *)
From Coq Require Import ZArith List String Bool.
From U2F Require Import Base.Prelude Info.NameMerge.
Import ListNotations.
Open Scope Z_scope.

(* a source construct outside the translated fragment: opaque, nothing can be proved about it *)
Definition name_untranslated (what : string) (temp_ orig_ : list (nkey * str)) : list (nkey * str). Proof. exact []. Qed.
"""


def main():
    notes = []
    try:
        body = translate()
    except (Unknown, OSError, SyntaxError) as u:
        notes.append("InfoCompiler.setupTable_name: %s" % u)
        body = ("Definition tr_name_merge (temp_ orig_ : list (nkey * str)) : list (nkey * str) :=\n"
                "  name_untranslated %s%%string temp_ orig_." % coq_string(str(u)))
    text = PRELUDE + "\n" + body + "\n"
    old = open(OUT).read() if os.path.exists(OUT) else None
    if old != text:
        os.makedirs(os.path.dirname(OUT), exist_ok=True)
        open(OUT, "w").write(text)
    for n in notes:
        print("UNTRANSLATED:", n)
    print("translated InfoCompiler.setupTable_name; %d notes" % len(notes))
    return 0


if __name__ == "__main__":
    sys.exit(main())
